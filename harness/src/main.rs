//! h2tv: generate / concretise / execute / abstract. Contains no oracle: verdicts are TLC's.
mod dom;
mod exec;
mod gen;
mod concretize;
mod hist;
mod cssgen;
mod families;

use serde_json::{json, Value};
use std::io::{BufRead, BufReader, BufWriter, Write};
use std::sync::atomic::{AtomicU64, Ordering};
use std::sync::{Arc, Mutex};
use std::time::{Duration, Instant};

fn arg_val(args: &[String], name: &str) -> Option<String> {
    args.iter().position(|a| a == name).and_then(|i| args.get(i + 1).cloned())
}

/// Execute one case (a JSON object with `runs`, or `hist`), return the trace record.
fn exec_case(case: &Value, dom_max: usize, steps: bool) -> Value {
    let mut out = serde_json::Map::new();
    out.insert("id".into(), case["id"].clone());
    out.insert("meta".into(), match case.get("meta") { Some(m) if m.is_object() => m.clone(), _ => json!({"_": 0}) });
    if let Some(h) = case.get("hist") {
        let (docs, steps) = hist::run_history(case, h, dom_max);
        out.insert("doms".into(), docs);
        out.insert("hist".into(), steps);
        out.insert("cfg".into(), case.get("cfg").cloned().unwrap_or(json!({"deco": "plain", "ops": []})));
        out.insert("runs".into(), json!([]));
        return Value::Object(out);
    }
    let want_dom = case.get("dom").and_then(|v| v.as_bool()).unwrap_or(true);
    let mut htmls: Vec<Vec<u8>> = Vec::new();
    let mut doms: Vec<Value> = Vec::new();
    let mut runs_out = Vec::new();
    for run in case["runs"].as_array().map(|a| a.as_slice()).unwrap_or(&[]) {
        let html = exec::html_bytes(run);
        let d = match htmls.iter().position(|h| *h == html) {
            Some(i) => i,
            None => {
                htmls.push(html.clone());
                doms.push(if want_dom { dom::abstract_dom(&html, dom_max).unwrap_or(json!([{"k": "big"}])) } else { json!([{"k": "none"}]) });
                htmls.len() - 1
            }
        };
        let w = exec::width_of(run);
        let route = run.get("route").and_then(|v| v.as_str()).unwrap_or("string");
        // step events only for modest widths and the routes that render exactly once
        let want_steps = steps && w <= 10_000 && !route.starts_with("staged_clone");
        let (o, ds, st) = if want_steps { exec::run_one_steps(&html, w, &run["cfg"], route) } else { let (o, ds) = exec::run_one(&html, w, &run["cfg"], route); (o, ds, Value::Null) };
        let mut cfg = run["cfg"].clone();
        if !cfg.is_object() { cfg = json!({"deco": "plain", "ops": []}); }
        if cfg.get("ops").is_none() { cfg["ops"] = json!([]); }
        cfg["ds"] = ds;
        if cfg["deco"].is_object() { cfg["decop"] = cfg["deco"].clone(); cfg["deco"] = json!("custom"); }
        let mut r = json!({"d": d + 1, "w": run.get("w").cloned().unwrap_or(json!(-1)), "cfg": cfg, "route": route,
                           "res": exec::outcome_json(o)});
        if let Some(wx) = run.get("wx") { r["wx"] = wx.clone(); r["w"] = json!(-1); }
        if let Some(t) = run.get("tag") { r["tag"] = t.clone(); }
        if let Some(a) = st.as_array() { if a.len() <= 4000 { r["steps"] = st; } }
        runs_out.push(r);
    }
    out.insert("doms".into(), Value::Array(doms));
    out.insert("runs".into(), Value::Array(runs_out));
    Value::Object(out)
}

fn cmd_exec(args: &[String]) -> i32 {
    let inp = &args[0];
    let outp = &args[1];
    let skip: usize = arg_val(args, "--skip").and_then(|s| s.parse().ok()).unwrap_or(0);
    let timeout_ms: u64 = arg_val(args, "--timeout-ms").and_then(|s| s.parse().ok()).unwrap_or(20_000);
    let dom_max: usize = arg_val(args, "--dom-max").and_then(|s| s.parse().ok()).unwrap_or(20_000);
    let journal = arg_val(args, "--journal");
    let steps_every: usize = arg_val(args, "--steps-every").and_then(|s| s.parse().ok()).unwrap_or(0);
    let append = skip > 0;
    let f = std::fs::OpenOptions::new().create(true).write(true).append(append).truncate(!append).open(outp).expect("open out");
    let out = Arc::new(Mutex::new(BufWriter::new(f)));
    let reader = BufReader::new(std::fs::File::open(inp).expect("open in"));
    exec::install_panic_hook();
    // watchdog: (start millis since t0, line index + 1); 0 = idle
    let t0 = Instant::now();
    let started = Arc::new(AtomicU64::new(0));
    let cur = Arc::new(AtomicU64::new(0));
    let cur_id = Arc::new(Mutex::new(String::new()));
    {
        let (started, cur, cur_id, out) = (started.clone(), cur.clone(), cur_id.clone(), out.clone());
        std::thread::spawn(move || loop {
            std::thread::sleep(Duration::from_millis(200));
            let s = started.load(Ordering::SeqCst);
            if s != 0 && (t0.elapsed().as_millis() as u64).saturating_sub(s) > timeout_ms {
                let id = cur_id.lock().unwrap().clone();
                let mut o = out.lock().unwrap();
                let rec = json!({"id": id, "doms": [], "runs": [], "crash": "timeout", "line": cur.load(Ordering::SeqCst)});
                let _ = writeln!(o, "{}", rec);
                let _ = o.flush();
                std::process::exit(3);
            }
        });
    }
    let worker = std::thread::Builder::new().stack_size(64 << 20).spawn(move || {
        for (i, line) in reader.lines().enumerate() {
            if i < skip { continue; }
            let line = line.expect("read");
            if line.trim().is_empty() { continue; }
            let case: Value = match serde_json::from_str(&line) { Ok(v) => v, Err(_) => continue };
            *cur_id.lock().unwrap() = case["id"].as_str().unwrap_or("").to_string();
            cur.store(i as u64 + 1, Ordering::SeqCst);
            if let Some(j) = &journal { let _ = std::fs::write(j, format!("{}\n", i + 1)); }
            started.store(t0.elapsed().as_millis() as u64 + 1, Ordering::SeqCst);
            let t = Instant::now();
            // a case may ask for a thread of its own with a given stack size (deep-nesting cases: stack use must
            // not grow with the nesting depth; an overflow aborts the process and is attributed via the journal)
            let want_steps = steps_every > 0 && i % steps_every == 0;
            let mut rec = match case.get("stack_kb").and_then(|v| v.as_u64()) {
                Some(kb) => {
                    let c2 = case.clone();
                    std::thread::Builder::new().stack_size((kb as usize) << 10).spawn(move || exec_case(&c2, dom_max, want_steps))
                        .expect("spawn").join().unwrap_or_else(|_| json!({"id": case["id"], "doms": [], "runs": [], "crash": "thread panicked"}))
                }
                None => exec_case(&case, dom_max, want_steps),
            };
            started.store(0, Ordering::SeqCst);
            rec["ms"] = json!(t.elapsed().as_millis() as u64);
            let mut text = rec.to_string();
            // a record too large for the JSON reader on the TLA+ side keeps the kind of each result and loses its
            // lines; it is marked, and only the totality predicate (which looks at kinds alone) judges it
            if text.len() > OVERSIZE {
                if let Some(runs) = rec.get_mut("runs").and_then(|r| r.as_array_mut()) {
                    for run in runs.iter_mut() { run["res"]["lines"] = json!([]); run["res"]["sw"] = json!([]); if let Some(o) = run.as_object_mut() { o.remove("steps"); } }
                }
                if let Some(h) = rec.get_mut("hist").and_then(|r| r.as_array_mut()) { for x in h.iter_mut() { x["res"]["lines"] = json!([]); x["res"]["sw"] = json!([]); } }
                rec["doms"] = json!([]);
                rec["oversize"] = json!(text.len());
                text = rec.to_string();
            }
            let mut o = out.lock().unwrap();
            writeln!(o, "{}", text).expect("write");
            // complete lines only on disk: a later case may abort the process
            o.flush().expect("flush");
        }
        out.lock().unwrap().flush().expect("flush");
    }).expect("spawn");
    match worker.join() { Ok(_) => 0, Err(_) => 4 }
}

const OVERSIZE: usize = 24 << 20;
fn main() {
    let args: Vec<String> = std::env::args().skip(1).collect();
    if args.is_empty() { eprintln!("usage: h2tv exec|gen|concretize ..."); std::process::exit(2); }
    let code = match args[0].as_str() {
        "exec" => cmd_exec(&args[1..]),
        "gen" => gen::cmd_gen(&args[1..]),
        "concretize" => concretize::cmd(&args[1..]),
        "show" => {
            // show <width> <deco> [ops-json] < html : print the rendering (debug aid)
            use std::io::Read;
            let mut html = Vec::new();
            std::io::stdin().read_to_end(&mut html).unwrap();
            let w: usize = args[1].parse().unwrap_or(80);
            let ops: Value = args.get(3).and_then(|s| serde_json::from_str(s).ok()).unwrap_or(json!([]));
            let cfg = json!({"deco": args.get(2).cloned().unwrap_or("plain".into()), "ops": ops});
            exec::install_panic_hook();
            let (o, _) = exec::run_one(&html, w, &cfg, if cfg["deco"] == "rich" { "lines" } else { "string" });
            let v = exec::outcome_json(o);
            println!("{} {}", v["k"], v.get("msg").cloned().unwrap_or(json!("")));
            for (i, l) in v["lines"].as_array().unwrap().iter().enumerate() {
                println!("{:3}|{}|", v["sw"][i], concretize::cells_to_string(l));
                // with VERIF_SHOW_TAGS: the distinct annotation vectors of the line, in order of appearance
                if std::env::var("VERIF_SHOW_TAGS").is_ok() {
                    let mut seen: Vec<String> = vec![];
                    for c in l.as_array().map(|a| a.as_slice()).unwrap_or(&[]) { if let Some(t) = c.get(2) { let s = t.to_string(); if seen.last() != Some(&s) { seen.push(s); } } }
                    println!("      tags: {}", seen.join(" "));
                }
            }
            0
        }
        _ => { eprintln!("unknown command"); 2 }
    };
    std::process::exit(code);
}
