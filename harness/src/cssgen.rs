//! CSS-side generators: abstract sheets (the JSON the specification reads) and their concrete spellings.
use crate::gen::*;
use serde_json::{json, Value};

pub const NAMES: &[&str] = &["div", "p", "span", "em", "ul", "li", "section", "b", "td", "tr", "table", "sup", "tbody"];
pub const CLASSES: &[&str] = &["x", "y", "z"];

fn structural_name(n: &str) -> bool { n == "table" || n == "tr" || n == "td" || n == "li" }
pub fn colour_hex(c: &Value) -> String { format!("#{:02x}{:02x}{:02x}", c[0].as_u64().unwrap_or(0), c[1].as_u64().unwrap_or(0), c[2].as_u64().unwrap_or(0)) }

pub fn compound(r: &mut Rng, comb: &str, ids: &[String]) -> Value {
    let mut name = String::new(); let mut star = false; let mut cls: Vec<&str> = vec![]; let mut id = String::new(); let mut nth = json!([]);
    match r.below(10) { 0..=4 => name = (*r.pick(NAMES)).to_string(), 5 => star = true, _ => {} }
    if r.chance(2, 5) { cls.push(*r.pick(CLASSES)); if r.chance(1, 4) { let c2 = *r.pick(CLASSES); if !cls.contains(&c2) { cls.push(c2); } } }
    if !ids.is_empty() && r.chance(1, 6) { id = r.pick(ids).clone(); }
    if r.chance(1, 4) { let a = r.below(11) as i64 - 5; let b = r.below(11) as i64 - 5; nth = json!([a, b]); }
    if name.is_empty() && !star && cls.is_empty() && id.is_empty() && nth == json!([]) { name = (*r.pick(NAMES)).to_string(); }
    json!({"comb": comb, "name": name, "star": star, "cls": cls, "id": id, "nth": nth})
}
pub fn selector(r: &mut Rng, maxsteps: u64, ids: &[String]) -> Value {
    let k = r.range(1, maxsteps);
    let mut v = vec![compound(r, "", ids)];
    for _ in 1..k { let comb = if r.chance(1, 2) { "desc" } else { "child" }; v.push(compound(r, comb, ids)); }
    Value::Array(v)
}
/// Spelling of a compound.  `style` bits vary insignificant syntax.
pub fn compound_text(c: &Value, r: &mut Rng, vary: bool) -> String {
    let mut s = String::new();
    if c["star"].as_bool().unwrap_or(false) { s.push('*'); }
    s.push_str(c["name"].as_str().unwrap_or(""));
    for cl in c["cls"].as_array().unwrap() { s.push('.'); s.push_str(cl.as_str().unwrap()); }
    let id = c["id"].as_str().unwrap_or(""); if !id.is_empty() { s.push('#'); s.push_str(id); }
    if let Some(ab) = c["nth"].as_array() { if ab.len() == 2 {
        let (a, b) = (ab[0].as_i64().unwrap(), ab[1].as_i64().unwrap());
        let sp = if vary && r.chance(1, 2) { " " } else { "" };
        if a == 2 && b == 1 && vary && r.chance(1, 2) { s.push_str(":nth-child(odd)"); }
        else if a == 2 && b == 0 && vary && r.chance(1, 2) { s.push_str(":nth-child(even)"); }
        else if a == 0 { s.push_str(&format!(":nth-child({}{}{})", sp, b, sp)); }
        else if b == 0 && r.chance(1, 2) { s.push_str(&format!(":nth-child({}n)", a)); }
        else { s.push_str(&format!(":nth-child({}n{}{})", a, if b < 0 { "-" } else { "+" }, b.abs())); }
    } }
    s
}
pub fn selector_text(sel: &Value, r: &mut Rng, vary: bool) -> String {
    let mut s = String::new();
    for c in sel.as_array().unwrap() {
        match c["comb"].as_str().unwrap_or("") {
            "desc" => s.push_str(if vary && r.chance(1, 3) { "  " } else if vary && r.chance(1, 4) { "\n" } else { " " }),
            "child" => s.push_str(if vary && r.chance(1, 2) { ">" } else { " > " }),
            _ => {}
        }
        s.push_str(&compound_text(c, r, vary));
    }
    if let Some(pe) = sel.as_array().and_then(|a| a.last()).and_then(|c| c.get("pe")).and_then(|p| p.as_str()) {
        if !pe.is_empty() { s.push_str("::"); s.push_str(pe); }
    }
    s
}
/// A CSS comment (bodies with stars, slashes, braces, rule-like text and newlines).
pub fn comment(r: &mut Rng) -> &'static str {
    *r.pick(&["/*c*/", "/**/", "/***/", "/*/ c */", "/*//// s ////*/", "/* a * b / c */", "/*\n multi\n line */", "/* { } ; : */",
              "/* .x{color:red} */", "/*/*/", "/* ** */", "/*a//*b*/"])
}
pub fn decl_text(d: &Value, r: &mut Rng, vary: bool) -> String {
    let prop = d["prop"].as_str().unwrap_or("");
    let (mut name, val) = match prop {
        "color" | "bg" => {
            let hex = colour_hex(&d["val"]);
            let v = if vary { match r.below(3) { 0 => hex.to_uppercase(), 1 => format!("rgb({}, {} ,{})", d["val"][0], d["val"][1], d["val"][2]), _ => hex } } else { hex };
            ((if prop == "color" { "color" } else { "background-color" }).to_string(), v)
        }
        "display" => ("display".to_string(), d["val"].as_str().unwrap_or("none").to_string()),
        "content" => { let t = crate::concretize::cells_to_string(&d["val"]); ("content".to_string(), if vary && r.chance(1, 2) { format!("'{}'", t) } else { format!("\"{}\"", t) }) }
        "height" => ((if vary && r.chance(1, 3) { "max-height" } else { "height" }).to_string(), if vary && r.chance(1, 2) { "0px".into() } else { "0".into() }),
        "overflow" => ((if vary && r.chance(1, 3) { "overflow-y" } else { "overflow" }).to_string(), "hidden".to_string()),
        "ws" => ("white-space".to_string(), match d["val"].as_str().unwrap_or("") { "Pre" => "pre", "PreWrap" => "pre-wrap", _ => "normal" }.to_string()),
        _ => (d["name"].as_str().unwrap_or("margin").to_string(), d["text"].as_str().unwrap_or("1px").to_string()),
    };
    if vary && r.chance(1, 3) { name = name.to_uppercase(); }
    let imp = if d["imp"].as_bool().unwrap_or(false) { if vary && r.chance(1, 2) { " ! important" } else { " !important" } } else { "" };
    let sp = if vary { if r.chance(1, 5) { comment(r) } else { *r.pick(&["", " ", "  ", "\n  "]) } } else { " " };
    format!("{}:{}{}{}", name, sp, val, imp)
}
/// Variants of insignificant syntax: 0 = canonical.
pub struct Vary { pub on: bool, pub drop_semi: bool, pub double_semi: bool, pub junk: bool, pub unknown_props: bool }
pub fn sheet_text(sheet: &Value, r: &mut Rng, v: &Vary) -> String {
    let mut s = String::new();
    // the sheet wrapped in an HTML comment (ignored between statements), or stray <!-- / --> between rules
    let cdo = v.on && r.chance(1, 8);
    if cdo { s.push_str(*r.pick(&["<!--\n", "<!-- ", "<!---->"])); }
    for rule in sheet.as_array().unwrap() {
        if v.on && r.chance(1, 30) { s.push_str(*r.pick(&["<!-- ", "--> ", "<!-- --> "])); }
        if v.junk && r.chance(1, 3) {
            s.push_str(*r.pick(&["@import url(x.css);\n", "@media print { p { color: red } }\n", "@charset \"utf-8\";", "q:hover { color: red }\n", "a[href] { color: blue; }\n", "p::first-line { color: red }\n",
                              "li:not(.x) b { color: red }\n", "ul:is(.x,.y) p { color: red; }\n", "li:nth-of-type(2) em { color: red }\n", "@include wrap(40) p { color: red }\n",
                              "a[href^=\"x\"] span { color: red }\n", "div:has(> p) span { color: red }\n", "p:not(.x):not(.y) { color: red }\n", "@font-face { font-family: x; src: url(y) }\n",
                              // strings: the other kind of quote, and characters that would end a statement, inside them
                              "@import \"bob's.css\";\n", "q[title='6\" nails'] { color: red }\n", "q[x=\"}\"] b { color: red }\n", "q[x=';{'] { color: red }\n", "@import '}{\"';\n",
                              "q[x=\"a\\\"b\"] { color: red }\n",
                              // blocks nested in a value / in an at-rule
                              // a child combinator without a compound on one side: not a selector, the rule set is dropped
                              "p > { color: #ff0000 }\n", "> b { color: #ff0000 }\n", "div > > span { color: #ff0000 }\n", "> { color: #ff0000 }\n", "* > , q { color: #ff0000 }\n", "li >{ color: #ff0000 }\n", ">em, q{ color: #ff0000 }\n",
                              // combinators the library does not support: the rule set is dropped, not applied with another meaning
                              "p + b { color: #ff0000 }\n", "div ~ p { color: #ff0000 }\n", "li+li { color: #ff0000 }\n", "b || i { color: #ff0000 }\n",
                              "q { a : { } }\n", "q { a : { x ; y } ; c : d }\n", "@media print { @x { q { a : [ { } ] } } }\n", "q { --v: { a: b; c: ( d ; e ) } }\n"]));
        }
        let sels: Vec<String> = rule["sels"].as_array().unwrap().iter().map(|x| selector_text(x, r, v.on)).collect();
        s.push_str(&sels.join(if v.on && r.chance(1, 2) { "," } else { ", " }));
        if v.on && r.chance(1, 5) { s.push_str(comment(r)); }
        s.push_str(if v.on { *r.pick(&["{", " {", " {\n  ", "{ "]) } else { " { " });
        if v.on && r.chance(1, 6) { s.push_str(comment(r)); }
        let decls = rule["decls"].as_array().unwrap();
        for (k, d) in decls.iter().enumerate() {
            if v.unknown_props && r.chance(1, 3) { s.push_str(*r.pick(&["margin: 0 auto; ", "font: 12px/1.5 \"A B\", serif; ", "-webkit-x: y; ", "width: calc(100% - 2px); ",
                                                                         "font-family: \"Bob's Font\"; ", "quotes: '\"' '\"'; ", "x-y: \"a;b}c\"; ", "x-y: 'it''s'; ", "--x-y: { a ; b }; ", "x-y: [ { } ] ( ; ); ",
                                                                         "--accent: #00f; ", "--v: 1; ", "background-image: url(data:image/png;base64,AAAA); ", "x-y: f(a;b) g( c ; d ); ", "src: local(x;y), url(\"a;b\"); "])); }
            s.push_str(&decl_text(d, r, v.on));
            let last = k + 1 == decls.len();
            if last { if v.double_semi { s.push_str(";;"); } else if !v.drop_semi { s.push(';'); } }
            else { s.push_str(if v.on && r.chance(1, 3) { " ; " } else { "; " }); }
        }
        s.push_str(if v.on { *r.pick(&["}", " }", "\n}\n", " } "]) } else { " }\n" });
        if v.on && r.chance(1, 4) { s.push_str(comment(r)); s.push(' '); }
    }
    if cdo { s.push_str(*r.pick(&["-->", "\n-->\n", " --> "])); }
    s
}
pub fn content_decl(text: &str, imp: bool) -> Value { json!({"prop": "content", "val": text.chars().map(|c| json!([c as u32, 1])).collect::<Vec<_>>(), "imp": imp}) }
pub fn canonical() -> Vary { Vary { on: false, drop_semi: false, double_semi: false, junk: false, unknown_props: false } }
pub fn style_attr_text(decls: &[Value]) -> String {
    decls.iter().map(|d| {
        let imp = if d["imp"].as_bool().unwrap_or(false) { " !important" } else { "" };
        match d["prop"].as_str().unwrap_or("") {
            "color" => format!("color:{}{}", colour_hex(&d["val"]), imp),
            "bg" => format!("background-color:{}{}", colour_hex(&d["val"]), imp),
            "display" => format!("display:{}{}", d["val"].as_str().unwrap_or("none"), imp),
            "height" => format!("height:0{}", imp),
            _ => format!("overflow:hidden{}", imp),
        }
    }).collect::<Vec<_>>().join(";")
}

/// A document for the CSS families: elements with classes / ids, mixed text and element children,
/// a unique lower-case token in every text node.  No tables, no links (footnotes), no pre.
pub struct CssDoc { pub ids: Vec<String>, tok: u32, pub tables: bool }
impl CssDoc {
    pub fn new() -> CssDoc { CssDoc { ids: vec![], tok: 0, tables: false } }
    pub fn token(&mut self) -> String { self.tok += 1; let mut k = self.tok; let mut s = String::from("t"); loop { s.push((b'a' + (k % 26) as u8) as char); k /= 26; if k == 0 { break; } } s }
    pub fn element(&mut self, r: &mut Rng, depth: u32, parent: &str) -> N {
        let inline_parent = ["p", "span", "em", "b"].contains(&parent);
        let name = if parent == "ul" { "li" } else if parent == "table" { "tr" } else if parent == "tr" { "td" }
                   else if inline_parent { *r.pick(&["span", "em", "b"]) }
                   else if self.tables && depth <= 1 && r.chance(1, 6) { "table" }
                   else { *r.pick(&["div", "p", "span", "em", "ul", "section", "div", "p"]) };
        // a superscript holding only digits is rendered through a shortcut of its own
        if !structural_name(name) && depth >= 1 && r.chance(1, 12) {
            let mut attrs: Vec<(&str, String)> = vec![];
            if r.chance(2, 3) { attrs.push(("class", (*r.pick(CLASSES)).to_string())); }
            return N::ela("sup", attrs, vec![N::T(format!("{}", r.below(100)))]);
        }
        let structural = name == "table" || name == "tr";
        let mut attrs: Vec<(&str, String)> = vec![];
        if r.chance(1, 2) { let mut cl = vec![*r.pick(CLASSES)]; if r.chance(1, 3) { let c2 = *r.pick(CLASSES); if !cl.contains(&c2) { cl.push(c2); } } attrs.push(("class", cl.join(*r.pick(&[" ", " ", " ", "  ", "\t", "\n", " \n ", "\u{c}"])))); }
        if r.chance(1, 4) { let id = format!("i{}", self.ids.len() + 1); self.ids.push(id.clone()); attrs.push(("id", id)); }
        let mut kids = vec![];
        // markup that the parser has to repair: an inline element closed inside a block that was opened after it
        // (the adoption agency moves the block's children into a clone of the inline element)
        if !structural && !inline_parent && parent != "ul" && depth <= 2 && r.chance(1, 14) {
            let (inl, blk) = (*r.pick(&["em", "b", "strong", "i"]), *r.pick(&["p", "div"]));
            let (c1, c2) = (*r.pick(CLASSES), *r.pick(CLASSES));
            return N::Raw(format!("<{inl} class=\"{c1}\"><{blk}>{} <span class=\"{c2}\">{}</span></{inl}> {}</{blk}>", self.token(), self.token(), self.token()));
        }
        let nk = if structural { r.range(1, 3) } else if depth >= 3 { r.below(2) } else { r.below(4) };
        if name != "ul" && !structural && r.chance(2, 3) { kids.push(N::T(self.token())); }
        // an element written directly inside <table> / <tr>: the parser moves it in front of the table
        if structural && r.chance(1, 6) { let c = *r.pick(CLASSES); kids.push(N::ela(*r.pick(&["p", "div", "span"]), vec![("class", c.to_string())], vec![N::T(self.token())])); }
        for _ in 0..nk {
            // (a comment between element children: no child for :nth-child, no text node either)
            if !structural && r.chance(1, 6) { kids.push(N::Raw("<!-- c -->".into())); }
            kids.push(self.element(r, if structural { depth } else { depth + 1 }, name));
            if name != "ul" && !structural && r.chance(1, 3) { kids.push(N::T(format!(" {} ", self.token()))); }
        }
        if name == "ul" && kids.is_empty() { kids.push(N::el("li", vec![N::T(self.token())])); }
        // table sections written out, with classes of their own (their colours are handed to the rows)
        if name == "table" && r.chance(1, 2) {
            let mut out: Vec<N> = vec![];
            let nrows = kids.iter().filter(|k| matches!(k, N::E(n, _, _) if n == "tr")).count();
            let head_rows = if nrows >= 2 && r.chance(1, 3) { 1 } else { 0 };
            let mut seen = 0;
            let mut sect = |r: &mut Rng, nm: &'static str, rows: Vec<N>| { let mut a: Vec<(&str, String)> = vec![]; if r.chance(2, 3) { a.push(("class", (*r.pick(CLASSES)).to_string())); } N::ela(nm, a, rows) };
            let mut cur: Vec<N> = vec![];
            for k in kids.into_iter() {
                let is_row = matches!(&k, N::E(n, _, _) if n == "tr");
                if !is_row { out.push(k); continue; }
                cur.push(k); seen += 1;
                if seen == head_rows { let rows = std::mem::take(&mut cur); out.push(sect(r, "thead", rows)); }
            }
            if !cur.is_empty() { let nm = if r.chance(1, 5) { "tfoot" } else { "tbody" }; out.push(sect(r, nm, cur)); }
            kids = out;
        }
        N::ela(name, attrs, kids)
    }
    pub fn body(&mut self, r: &mut Rng) -> Vec<N> { let n = r.range(1, 3); (0..n).map(|_| self.element(r, 0, "body")).collect() }
}
pub fn colour(r: &mut Rng, k: u64) -> Value { json!([16 * (k % 16), 255 - (r.below(8) * 8), k]) }
/// a colour determined by k alone (so that the same k gives the same colour again)
pub fn colour_k(k: u64) -> Value { json!([16 * (k % 16), 255 - 8 * (k % 8), k % 256]) }
