//! Seeded generators. A family produces cases = lists of runs on the real API; no expected results.
use serde_json::{json, Value};
use std::io::Write;

pub struct Rng(pub u64);
impl Rng {
    pub fn new(seed: u64) -> Rng { let mut r = Rng(seed.wrapping_mul(0x9E3779B97F4A7C15) ^ 0xD1B54A32D192ED03); r.next(); r.next(); r }
    pub fn next(&mut self) -> u64 { self.0 ^= self.0 << 13; self.0 ^= self.0 >> 7; self.0 ^= self.0 << 17; self.0.wrapping_mul(0x2545F4914F6CDD1D) }
    pub fn below(&mut self, n: u64) -> u64 { if n == 0 { 0 } else { (self.next() >> 11) % n } }
    pub fn range(&mut self, lo: u64, hi: u64) -> u64 { lo + self.below(hi - lo + 1) }
    pub fn chance(&mut self, num: u64, den: u64) -> bool { self.below(den) < num }
    pub fn pick<'a, T>(&mut self, v: &'a [T]) -> &'a T { &v[self.below(v.len() as u64) as usize] }
}

#[derive(Clone, Debug)]
pub enum N {
    T(String),
    Raw(String),
    E(String, Vec<(String, String)>, Vec<N>),
}
pub fn esc(s: &str) -> String { s.replace('&', "&amp;").replace('<', "&lt;").replace('>', "&gt;") }
pub fn esc_attr(s: &str) -> String { s.replace('&', "&amp;").replace('"', "&quot;") }
const VOID: &[&str] = &["br", "img", "hr", "meta", "link"];
impl N {
    pub fn el(n: &str, kids: Vec<N>) -> N { N::E(n.into(), vec![], kids) }
    pub fn ela(n: &str, attrs: Vec<(&str, String)>, kids: Vec<N>) -> N {
        N::E(n.into(), attrs.into_iter().map(|(a, b)| (a.to_string(), b)).collect(), kids)
    }
    pub fn html(&self, out: &mut String) {
        match self {
            N::T(s) => out.push_str(&esc(s)),
            N::Raw(s) => out.push_str(s),
            N::E(n, attrs, kids) => {
                out.push('<'); out.push_str(n);
                for (a, v) in attrs { out.push(' '); out.push_str(a); out.push_str("=\""); out.push_str(&esc_attr(v)); out.push('"'); }
                out.push('>');
                if VOID.contains(&n.as_str()) { return; }
                // html5ever drops a newline directly after <pre>; keep generated text intact
                if n == "pre" { if let Some(N::T(s)) = kids.first() { if s.starts_with('\n') { out.push('\n'); } } }
                for k in kids { k.html(out); }
                out.push_str("</"); out.push_str(n); out.push('>');
            }
        }
    }
    pub fn add_attr(&mut self, a: &str, v: String) { if let N::E(_, attrs, _) = self { attrs.push((a.into(), v)); } }
}
pub fn doc_html(body: &[N]) -> String {
    let mut s = String::from("<html><body>");
    for n in body { n.html(&mut s); }
    s.push_str("</body></html>");
    s
}

/// What the block grammar may use.
#[derive(Clone, Copy)]
pub struct Feat {
    pub tables: bool, pub ids: bool, pub links: bool, pub pre: bool, pub imgs: bool, pub wide: bool, pub zero: bool, pub zero_only: bool, pub vs16: bool,
    pub lists: bool, pub quotes: bool, pub heads: bool, pub dl: bool, pub inline: bool, pub strike: bool, pub br: bool, pub stray: bool,
    pub colspan: bool, pub nested_tables: bool, pub sup: bool, pub unique: bool, pub linky: bool, pub odd_href: bool, pub maxdepth: u32,
}
impl Feat {
    pub fn all() -> Feat { Feat { tables: true, ids: false, links: true, pre: true, imgs: true, wide: true, zero: true, zero_only: true, vs16: false, lists: true, quotes: true,
        heads: true, dl: true, inline: true, strike: true, br: true, stray: false, colspan: true, nested_tables: true, sup: false, unique: true, linky: false, odd_href: false, maxdepth: 3 } }
    pub fn notables() -> Feat { Feat { tables: false, colspan: false, nested_tables: false, ..Feat::all() } }
}

pub struct G<'a> { pub r: &'a mut Rng, pub f: Feat, pub tok: u32, pub idc: u32, pub in_a: bool, pub in_table: u32, pub ids: Vec<String> }
const LETTERS: &[u8] = b"abcdefghijklmnopqrstuvwxyz";
impl<'a> G<'a> {
    pub fn new(r: &'a mut Rng, f: Feat) -> G<'a> { G { r, f, tok: 0, idc: 0, in_a: false, in_table: 0, ids: vec![] } }
    /// A unique letter-only token; sometimes with wide or combining characters.
    pub fn token(&mut self) -> String {
        self.tok += 1;
        let mut k = self.tok;
        let mut s = String::new();
        // unique part: base-26 of counter, then optional padding letters
        loop { s.push(LETTERS[(k % 26) as usize] as char); k /= 26; if k == 0 { break; } }
        if !self.f.unique { s.clear(); }
        let extra = self.r.below(6);
        for _ in 0..extra { s.push(LETTERS[self.r.below(26) as usize] as char); }
        if self.f.wide && self.r.chance(1, 5) { let p = self.r.below(s.len() as u64 + 1) as usize; s.insert(p, *self.r.pick(&['一', '二', '語', '🎉'])); }
        if self.f.zero && self.r.chance(1, 8) { s.push('\u{301}'); }
        // an emoji presentation sequence: one column plus none by its characters, two columns as a string
        if self.f.vs16 && self.r.chance(1, 25) { let p = self.r.below(s.len() as u64 + 1) as usize; if s.is_char_boundary(p) { s.insert_str(p, *self.r.pick(&["\u{263a}\u{fe0f}", "\u{2764}\u{fe0f}", "\u{263a}\u{fe0f}\u{263a}\u{fe0f}"])); } }
        // characters without any width: C0 / DEL control characters (dropped by the renderer)
        if self.f.zero && self.r.chance(1, 20) { let p = self.r.below(s.len() as u64 + 1) as usize; if s.is_char_boundary(p) { s.insert(p, *self.r.pick(&['\u{1}', '\u{1b}', '\u{7f}', '\u{8}'])); } }
        if s.is_empty() { s.push('x'); }
        // a word that has characters but no width at all (a lone combining mark, zero-width space / joiner)
        if self.f.zero && self.f.zero_only && self.r.chance(1, 30) { return (*self.r.pick(&["\u{301}", "\u{200b}", "\u{200d}", "\u{200d}\u{301}", "\u{200b}\u{200b}"])).to_string(); }
        s
    }
    pub fn ws(&mut self) -> String {
        // (also white space that is not ASCII: ideographic space is two columns wide, NBSP / EM SPACE / NEL one or none)
        match self.r.below(24) { 0 | 1 => "  ".into(), 2 | 3 => "\n".into(), 4 | 5 => " \n ".into(), 6 | 7 => "\t".into(),
                                 8 => "\u{3000}".into(), 9 => "\u{2003}".into(), 10 => "\u{a0}".into(), 11 => " \u{3000}".into(), 12 => "\u{85}".into(), _ => " ".into() }
    }
    pub fn text(&mut self) -> String {
        let long = self.r.chance(1, 6);
        let n = 1 + self.r.below(if long { 14 } else { 4 });
        let mut s = String::new();
        if self.r.chance(1, 4) { s.push_str(&self.ws()); }
        for i in 0..n { if i > 0 { s.push_str(&self.ws()); } s.push_str(&self.token()); }
        if self.r.chance(1, 4) { s.push_str(&self.ws()); }
        s
    }
    fn maybe_id(&mut self, n: &mut N, name_ok: bool) {
        if self.f.ids && self.r.chance(1, 3) {
            self.idc += 1;
            let id = format!("_{}", self.idc);
            let attr = if name_ok && self.r.chance(1, 2) { "name" } else { "id" };
            // (in front of the other attributes as often as behind them)
            if self.r.chance(1, 2) { if let N::E(_, attrs, _) = n { attrs.insert(0, (attr.into(), id.clone())); } } else { n.add_attr(attr, id.clone()); }
            self.ids.push(id);
        }
    }
    pub fn inline(&mut self, depth: u32) -> N {
        let f = self.f;
        loop {
            let k = if depth > f.maxdepth + 1 { 0 } else if f.linky && !self.in_a && self.r.chance(1, 3) { 10 } else { self.r.below(14) };
            let mut n = match k {
                0..=4 => return N::T(self.text()),
                5 if f.br => N::el("br", vec![]),
                6 if f.inline => N::el(*self.r.pick(&["em", "i", "em", "ins"]), self.inlines(depth + 1)),
                7 if f.inline => N::el("strong", self.inlines(depth + 1)),
                8 if f.inline => N::el("code", self.inlines(depth + 1)),
                9 if f.strike => N::el(*self.r.pick(&["s", "del"]), self.inlines(depth + 1)),
                10 if f.links && !self.in_a => {
                    self.in_a = true; let kids = self.inlines(depth + 1); self.in_a = false;
                    // (odd targets: empty, blank, or with wide characters - never letters, see C03's assumption)
                    let href = if f.odd_href && self.r.chance(1, 10) {
                                   // a line feed inside the target: it counts no column as it stands, one as the blank it becomes in the footnote
                                   let n = self.r.range(3, 22) as usize; let mut s: String = "//0.0/".into();
                                   for k in 0..n { s.push(if k > 0 && self.r.chance(1, 6) { '\n' } else { (b'a' + (k % 26) as u8) as char }); }
                                   s }
                               else if f.odd_href && self.r.chance(1, 6) { (*self.r.pick(&["", " ", "#", "//0.0/\u{3000}\u{3001}\u{3002}/\u{ff01}\u{ff02}\u{ff03}\u{ff04}\u{ff05}\u{ff06}\u{ff07}\u{ff08}\u{ff09}\u{ff0a}", "//\u{ff10}\u{ff11}.\u{ff12}/\u{ff13}\u{ff14}\u{ff15}\u{ff16}\u{ff17}\u{ff18}\u{ff19}/1234567890123"])).to_string() }
                               else { format!("//0.0/{}", self.r.below(50)) };
                    let mut n = if self.r.chance(1, 10) { N::el("a", kids) } else { N::ela("a", vec![("href", href)], kids) };
                    self.maybe_id(&mut n, true);
                    return n;
                }
                11 if f.imgs => {
                    let alt = if self.r.chance(1, 6) { String::new() } else { self.token() };
                    let mut at = vec![("alt", alt)];
                    if !self.r.chance(1, 8) { at.insert(0, ("src", format!("//0.0/{}", self.r.below(50)))); }
                    N::ela("img", at, vec![])
                }
                12 if f.inline => N::el("span", self.inlines(depth + 1)),
                13 if f.sup => N::el("sup", match self.r.below(8) {
                    0 | 1 | 2 => vec![N::T(format!("{}", self.r.below(120)))],
                    // numeric characters that are not ASCII digits
                    3 => vec![N::T((*self.r.pick(&["\u{b2}", "\u{bd}", "\u{661}\u{662}", "\u{ff11}", "1\u{b2}", "\u{2460}"])).to_string())],
                    // digits first, then more content
                    4 => { let mut v = vec![N::T(format!("{}", self.r.below(30)))]; v.push(N::el(*self.r.pick(&["em", "span", "strong"]), vec![N::T(self.token())])); if self.r.chance(1, 2) { v.push(N::T(self.token())); } v }
                    _ => self.inlines(depth + 1) }),
                _ => continue,
            };
            if !matches!(n, N::E(ref nm, _, _) if nm == "br" || nm == "img") { self.maybe_id(&mut n, false); }
            return n;
        }
    }
    pub fn inlines(&mut self, depth: u32) -> Vec<N> {
        let n = self.r.below(4);
        let mut v = Vec::new();
        for _ in 0..n {
            let x = self.inline(depth);
            // avoid adjacent text nodes (the parser would merge them; harmless but wasteful)
            if let (Some(N::T(_)), N::T(_)) = (v.last(), &x) { continue; }
            v.push(x);
        }
        v
    }
    pub fn pre_text(&mut self) -> String {
        let n = 1 + self.r.below(24);
        let mut s = String::new();
        for _ in 0..n {
            match self.r.below(9) {
                0 | 1 | 2 => s.push_str(&self.token()),
                3 | 4 | 5 => for _ in 0..1 + self.r.below(5) { s.push(' ') },
                6 => s.push('\n'),
                7 => s.push('\t'),
                _ => s.push_str(&self.token()),
            }
        }
        s
    }
    /// Mixed content of a <pre>: text chunks (some ending in a newline) and inline elements around
    /// words, so that source lines start and end at text-node boundaries too.
    pub fn pre_kids(&mut self) -> Vec<N> {
        let n = 1 + self.r.below(6);
        let mut v: Vec<N> = Vec::new();
        for _ in 0..n {
            if self.r.chance(1, 3) {
                let nm = *self.r.pick(&["em", "strong", "code", "span", "em"]);
                let mut t = self.token();
                if self.r.chance(1, 3) { t.push(' '); t.push_str(&self.token()); }
                v.push(N::el(nm, vec![N::T(t)]));
            } else {
                let mut t = self.pre_text();
                if self.r.chance(1, 2) { t.push('\n'); }
                if let Some(N::T(prev)) = v.last_mut() { prev.push_str(&t); } else { v.push(N::T(t)); }
            }
        }
        v
    }
    /// Content placed directly inside a list (not valid HTML, but parsed as written): a word, or an inline element.
    fn stray_into(&mut self, items: &mut Vec<N>) {
        if !self.f.stray || !self.r.chance(1, 5) { return; }
        let at = self.r.below(items.len() as u64 + 1) as usize;
        let n = if self.r.chance(1, 2) { N::T(self.token()) } else { N::el(*self.r.pick(&["em", "span", "strong"]), vec![N::T(self.token())]) };
        items.insert(at, n);
    }
    pub fn table(&mut self, depth: u32) -> N {
        let f = self.f;
        self.in_table += 1;
        let nrows = 1 + self.r.below(4);
        let ncols = 1 + self.r.below(4) as usize;
        let mut rows = Vec::new();
        // (sometimes the whole first column is empty: it gets no width, and what its cells carry moves on)
        let empty_first = ncols >= 2 && self.r.chance(1, 6);
        for _ in 0..nrows {
            let mut cellsv = Vec::new();
            let mut c = 0usize;
            // (sometimes a row of code listings: every cell empty or a <pre> whose text ends in a line feed)
            let listing_row = f.pre && self.r.chance(1, 10);
            while c < ncols {
                let span = if f.colspan && !(empty_first && c == 0) && self.r.chance(1, 4) { 1 + self.r.below((ncols - c) as u64) as usize } else { 1 };
                let kids = match self.r.below(8) {
                    _ if empty_first && c == 0 => vec![],
                    _ if listing_row => if self.r.chance(1, 3) { vec![] } else { let t = self.token(); vec![N::el("pre", vec![N::T(format!("{}\n", t))])] },
                    0 => vec![],
                    1 | 2 | 3 => vec![N::T(self.token())],
                    4 if f.nested_tables && self.in_table < 2 && depth < f.maxdepth => vec![self.table(depth + 1)],
                    5 => self.flow(depth + 2),
                    _ => self.inlines(depth + 1),
                };
                let mut td = N::el(if self.r.chance(1, 6) { "th" } else { "td" }, kids);
                if span > 1 && self.r.chance(1, 3) { td.add_attr(*self.r.pick(&["align", "class", "scope"]), "c".into()); }   // colspan need not come first
                if span > 1 { td.add_attr("colspan", format!("{}", span)); }
                self.maybe_id(&mut td, false);
                cellsv.push(td);
                c += span;
                if self.r.chance(1, 12) { break; } // ragged row
            }
            let mut tr = N::el("tr", cellsv);
            self.maybe_id(&mut tr, false);
            rows.push(tr);
        }
        self.in_table -= 1;
        let mut t = if self.r.chance(1, 3) {
            let k = self.r.below(rows.len() as u64 + 1) as usize;
            let mut tail = rows.split_off(k);
            let mut parts = vec![];
            if !rows.is_empty() { parts.push(N::el("thead", rows)); }
            // (sometimes the last row sits in a <tfoot>)
            let foot = if tail.len() >= 2 && self.r.chance(1, 2) { tail.pop() } else { None };
            if !tail.is_empty() { parts.push(N::el("tbody", tail)); }
            if let Some(fr) = foot { parts.push(N::el("tfoot", vec![fr])); }
            N::el("table", parts)
        } else { N::el("table", rows) };
        // a <caption> (first child of the table)
        if self.r.chance(1, 6) { let cap = N::el("caption", vec![N::T(self.token())]); if let N::E(_, _, ks) = &mut t { ks.insert(0, cap); } }
        self.maybe_id(&mut t, false);
        t
    }
    pub fn block(&mut self, depth: u32) -> N {
        let f = self.f;
        loop {
            let k = if depth > f.maxdepth { self.r.below(3) } else { self.r.below(13) };
            let mut n = match k {
                0 | 1 => return self.inline(depth),
                2 => N::el("p", self.inlines(depth + 1)),
                3 => N::el("div", self.flow(depth + 1)),
                4 if f.quotes => N::el("blockquote", self.flow(depth + 1)),
                5 if f.lists => {
                    let m = 1 + self.r.below(3);
                    let mut items = Vec::new();
                    for _ in 0..m { let mut li = N::el("li", self.flow(depth + 1)); self.maybe_id(&mut li, false); items.push(li); }
                    self.stray_into(&mut items);
                    N::el("ul", items)
                }
                6 if f.lists => {
                    let many = self.r.chance(1, 4);
                    let m = 1 + self.r.below(if many { 12 } else { 3 });
                    let starts: [i64; 12] = [1, -100, -1, 0, 9, 98, 999, 5, -12, 95, 1, 1];
                    let st = *self.r.pick(&starts);
                    let mut items = Vec::new();
                    for _ in 0..m { let mut li = N::el("li", self.flow(depth + 2)); self.maybe_id(&mut li, false); items.push(li); }
                    self.stray_into(&mut items);
                    // (attributes around `start`: their order does not matter)
                    if self.r.chance(1, 3) { N::el("ol", items) } else {
                        let mut attrs: Vec<(&str, String)> = vec![];
                        if self.r.chance(1, 4) { attrs.push((*self.r.pick(&["class", "type", "title"]), "1".to_string())); }
                        attrs.push(("start", format!("{}", st)));
                        if self.r.chance(1, 6) { attrs.push(("reversed", "".to_string())); }
                        N::ela("ol", attrs, items)
                    }
                }
                7 if f.heads => { let l = 1 + self.r.below(6); N::el(&format!("h{}", l), self.inlines(depth + 1)) }
                8 if f.dl => {
                    let mut dt = N::el("dt", self.inlines(depth + 1)); self.maybe_id(&mut dt, false);
                    let mut dd = N::el("dd", self.flow(depth + 1)); self.maybe_id(&mut dd, false);
                    let mut items = vec![dt, dd];
                    self.stray_into(&mut items);
                    N::el("dl", items)
                }
                9 if f.pre => {
                    if !f.inline || self.r.chance(1, 2) { let t = self.pre_text(); N::el("pre", vec![N::T(t)]) }
                    else { let k = self.pre_kids(); N::el("pre", k) }
                }
                10 if f.tables && self.in_table < 2 => return self.table(depth),
                11 if f.stray && self.r.chance(1, 4) => {
                    // an inline element closed inside a block that was opened after it: the parser repairs it
                    let (inl, blk) = (*self.r.pick(&["em", "strong", "code", "s", "b"]), *self.r.pick(&["p", "div", "blockquote"]));
                    // (sometimes with a table in between whose stray text the parser moves in front of it: two repairs on one node)
                    if f.tables && self.r.chance(1, 3) {
                        let (a, b, c) = (self.token(), self.token(), self.token());
                        match self.r.below(3) {
                            0 => N::Raw(format!("<{inl}><{blk}><table>{a}<tr><td>{b}</td></tr></table></{inl}> {c}</{blk}>")),
                            1 => N::Raw(format!("<{inl}><{blk}><table><tr>{a}<td>{b}</td></tr></table></{inl}>{c}</{blk}>")),
                            _ => N::Raw(format!("<{blk}><{inl}><table>{a}</table></{blk}>{b}</{inl}> {c}")),
                        }
                    } else {
                    N::Raw(format!("<{inl}><{blk}>{} {}</{inl}> {}</{blk}>", self.token(), self.token(), self.token()))
                    }
                }
                11 => N::el(*self.r.pick(&["section", "article", "u", "center"]), self.flow(depth + 1)),
                _ => continue,
            };
            self.maybe_id(&mut n, false);
            return n;
        }
    }
    pub fn flow(&mut self, depth: u32) -> Vec<N> {
        let n = self.r.below(4) + if depth == 0 { 1 } else { 0 };
        let mut v = Vec::new();
        for _ in 0..n {
            let x = self.block(depth);
            if let (Some(N::T(_)), N::T(_)) = (v.last(), &x) { continue; }
            v.push(x);
        }
        v
    }
}

pub fn hex(b: &[u8]) -> String { b.iter().map(|x| format!("{:02x}", x)).collect() }
/// Byte-level mutation of a document: bit flips, inserts, deletes, splices, truncation, invalid UTF-8,
/// control characters, hostile numeric attributes.
pub fn mutate(r: &mut Rng, src: &[u8]) -> Vec<u8> {
    let mut b = src.to_vec();
    let n = 1 + r.below(8);
    for _ in 0..n {
        if b.is_empty() { b.extend_from_slice(b"<p>"); }
        let len = b.len() as u64;
        match r.below(12) {
            0 => { let i = r.below(len) as usize; b[i] ^= 1 << r.below(8); }
            1 => { let i = r.below(len) as usize; b.remove(i); }
            2 => { let i = r.below(len + 1) as usize; b.insert(i, r.below(256) as u8); }
            3 => { let i = r.below(len) as usize; let j = (i + r.below(40) as usize).min(b.len()); let chunk: Vec<u8> = b[i..j].to_vec();
                   let k = r.below(len + 1) as usize; for (o, x) in chunk.into_iter().enumerate() { b.insert((k + o).min(b.len()), x); } }
            4 => { let i = r.below(len) as usize; b.truncate(i); }
            5 => { let i = r.below(len + 1) as usize; for (o, x) in [0xC3u8, 0x28, 0xFF, 0xFE, 0xED, 0xA0, 0x80].iter().take(1 + r.below(7) as usize).enumerate() { b.insert((i + o).min(b.len()), *x); } }
            6 => { let i = r.below(len + 1) as usize; b.insert(i, *r.pick(&[0u8, 1, 7, 8, 11, 12, 13, 27, 127])); }
            7 => { let i = r.below(len + 1) as usize; let t: &[u8] = *r.pick(&[&b"<table>"[..], b"<tr>", b"<td colspan=0>", b"<td colspan=18446744073709551615>", b"<ol start=-9223372036854775808>",
                       b"<ol start=9223372036854775807>", b"</table>", b"<pre>", b"</p>", b"<li>", b"<a href=", b"<!--", b"-->", b"<td colspan=3>", b"<th>", b"<blockquote>", b"<style>", b"</style>", b"<svg>", b"<template>", b"<select>"]);
                   for (o, x) in t.iter().enumerate() { b.insert((i + o).min(b.len()), *x); } }
            8 => { // rewrite a digit run into a hostile number
                   if let Some(i) = b.iter().position(|c| c.is_ascii_digit()) { let t: &[u8] = *r.pick(&[&b"0"[..], b"-1", b"99999999999999999999", b"4294967296", b"65536", b"-0", b"1e9", b"+7"]);
                       b.remove(i); for (o, x) in t.iter().enumerate() { b.insert(i + o, *x); } } }
            9 => { let i = r.below(len) as usize; let j = (i + r.below(30) as usize).min(b.len()); b.drain(i..j); }
            10 => { let i = r.below(len + 1) as usize; for (o, x) in "\u{301}\u{200b}\u{fe0f}\u{202e}".bytes().enumerate() { b.insert((i + o).min(b.len()), x); } }
            _ => { let i = r.below(len) as usize; b[i] = *r.pick(&[b'<', b'>', b'&', b'"', b'=', b' ', b'/']); }
        }
    }
    b
}

pub fn cfg(deco: &str, ops: Vec<Value>) -> Value { json!({"deco": deco, "ops": ops}) }
pub fn run(html: &str, w: u64, cfg: Value, route: &str) -> Value { json!({"html": html, "w": w, "cfg": cfg, "route": route}) }

/// Random option mix that keeps C02's premise (no overflow, links wrappable).
pub fn opts_c02(r: &mut Rng) -> Vec<Value> {
    let mut ops = vec![];
    if r.chance(1, 4) { ops.push(json!(["max_wrap", r.range(1, 40)])); }
    if r.chance(1, 5) { ops.push(json!(["min_wrap", r.range(0, 8)])); }
    if r.chance(1, 4) { ops.push(json!(["pad"])); }
    if r.chance(1, 6) { ops.push(json!(["raw", true])); }
    if r.chance(1, 6) { ops.push(json!(["noborders"])); }
    if r.chance(1, 4) { ops.push(json!(["footnotes", r.chance(1, 2)])); }
    if r.chance(1, 6) { ops.push(json!(["strike", false])); }
    ops
}
pub fn deco_std(r: &mut Rng) -> &'static str { *r.pick(&["plain", "plain", "rich", "trivial", "plain_nd"]) }
pub fn route_for(deco: &str, r: &mut Rng) -> &'static str {
    if deco == "rich" { *r.pick(&["lines", "string", "coloured"]) } else { "string" }
}

pub fn cmd_gen(args: &[String]) -> i32 {
    if args.len() < 4 { eprintln!("usage: h2tv gen <family> <n> <seed> <out> [k=v ...]"); return 2; }
    let fam = args[0].as_str();
    let n: u64 = args[1].parse().unwrap_or(100);
    let seed: u64 = args[2].parse().unwrap_or(1);
    let mut out = std::io::BufWriter::new(std::fs::File::create(&args[3]).expect("create out"));
    let params: std::collections::HashMap<String, String> = args[4..].iter().filter_map(|a| a.split_once('=')).map(|(a, b)| (a.to_string(), b.to_string())).collect();
    let mut r = Rng::new(seed);
    let mut emitted = 0u64;
    let mut i = 0u64;
    while emitted < n {
        i += 1;
        let cases = crate::families::gen_case(fam, &mut r, i, &params);
        if cases.is_empty() && i > n * 50 + 1000 { break; }
        for c in cases {
            writeln!(out, "{}", c).expect("write");
            emitted += 1;
        }
    }
    out.flush().expect("flush");
    0
}
