//! Independent DOM: an arena-based html5ever TreeSink (NOT the repository's vendored rcdom),
//! abstracted to the JSON document the TLA+ specification consumes.
use html5ever::interface::tree_builder::{ElementFlags, NodeOrText, QuirksMode, TreeSink};
use html5ever::tendril::{StrTendril, TendrilSink};
use html5ever::{parse_document, Attribute, ExpandedName, ParseOpts, QualName};
use serde_json::{json, Map, Value};
use std::borrow::Cow;
use std::cell::RefCell;
use unicode_width::UnicodeWidthChar;

#[derive(Debug)]
pub enum Data {
    Document,
    Doctype,
    Text(String),
    Comment,
    Pi,
    Element { name: QualName, attrs: Vec<Attribute>, template: Option<usize>, mathml_ip: bool },
}
#[derive(Debug)]
pub struct Node {
    pub data: Data,
    pub parent: Option<usize>,
    pub children: Vec<usize>,
}
#[derive(Default)]
pub struct Arena {
    pub nodes: RefCell<Vec<Node>>,
    names: RefCell<Vec<Option<Box<QualName>>>>,
}
impl Arena {
    fn new_node(&self, data: Data) -> usize {
        let mut n = self.nodes.borrow_mut();
        let nm = if let Data::Element { ref name, .. } = data { Some(Box::new(name.clone())) } else { None };
        self.names.borrow_mut().push(nm);
        n.push(Node { data, parent: None, children: vec![] });
        n.len() - 1
    }
    fn detach(&self, t: usize) {
        let mut n = self.nodes.borrow_mut();
        if let Some(p) = n[t].parent.take() {
            n[p].children.retain(|&c| c != t);
        }
    }
    fn append_node(&self, parent: usize, child: usize) {
        let mut n = self.nodes.borrow_mut();
        n[child].parent = Some(parent);
        n[parent].children.push(child);
    }
}
pub struct Sink {
    pub a: Arena,
}
impl Sink {
    pub fn new() -> Sink {
        let a = Arena::default();
        a.new_node(Data::Document);
        Sink { a }
    }
}
impl TreeSink for Sink {
    type Output = Arena;
    type Handle = usize;
    type ElemName<'a> = ExpandedName<'a>;
    fn finish(self) -> Arena { self.a }
    fn parse_error(&self, _msg: Cow<'static, str>) {}
    fn get_document(&self) -> usize { 0 }
    fn get_template_contents(&self, target: &usize) -> usize {
        match self.a.nodes.borrow()[*target].data {
            Data::Element { template: Some(t), .. } => t,
            _ => panic!("not a template"),
        }
    }
    fn set_quirks_mode(&self, _mode: QuirksMode) {}
    fn same_node(&self, x: &usize, y: &usize) -> bool { x == y }
    fn elem_name<'a>(&'a self, target: &'a usize) -> ExpandedName<'a> {
        // boxed copies of element names live as long as the arena and never move
        let names = self.a.names.borrow();
        match &names[*target] {
            Some(b) => {
                let p: *const QualName = &**b;
                // SAFETY: the box is never dropped or replaced while the arena lives; 'a is bounded by &self.
                unsafe { (*p).expanded() }
            }
            None => panic!("not an element"),
        }
    }
    fn create_element(&self, name: QualName, attrs: Vec<Attribute>, flags: ElementFlags) -> usize {
        let template = if flags.template { Some(self.a.new_node(Data::Document)) } else { None };
        self.a.new_node(Data::Element { name, attrs, template, mathml_ip: flags.mathml_annotation_xml_integration_point })
    }
    fn create_comment(&self, _text: StrTendril) -> usize { self.a.new_node(Data::Comment) }
    fn create_pi(&self, _t: StrTendril, _d: StrTendril) -> usize { self.a.new_node(Data::Pi) }
    fn append(&self, parent: &usize, child: NodeOrText<usize>) {
        match child {
            NodeOrText::AppendText(t) => {
                {
                    let mut n = self.a.nodes.borrow_mut();
                    if let Some(&last) = n[*parent].children.last() {
                        if let Data::Text(ref mut s) = n[last].data {
                            s.push_str(&t);
                            return;
                        }
                    }
                }
                let c = self.a.new_node(Data::Text(t.to_string()));
                self.a.append_node(*parent, c);
            }
            NodeOrText::AppendNode(c) => self.a.append_node(*parent, c),
        }
    }
    fn append_before_sibling(&self, sibling: &usize, child: NodeOrText<usize>) {
        let (parent, i) = {
            let n = self.a.nodes.borrow();
            let p = n[*sibling].parent.expect("no parent");
            (p, n[p].children.iter().position(|&c| c == *sibling).unwrap())
        };
        let c = match child {
            NodeOrText::AppendText(t) => {
                if i > 0 {
                    let mut n = self.a.nodes.borrow_mut();
                    let prev = n[parent].children[i - 1];
                    if let Data::Text(ref mut s) = n[prev].data {
                        s.push_str(&t);
                        return;
                    }
                }
                self.a.new_node(Data::Text(t.to_string()))
            }
            NodeOrText::AppendNode(c) => c,
        };
        self.a.detach(c);
        let mut n = self.a.nodes.borrow_mut();
        // index may have shifted if c was an earlier sibling of the same parent
        let i = n[parent].children.iter().position(|&x| x == *sibling).unwrap();
        n[c].parent = Some(parent);
        n[parent].children.insert(i, c);
    }
    fn append_based_on_parent_node(&self, element: &usize, prev_element: &usize, child: NodeOrText<usize>) {
        let has_parent = self.a.nodes.borrow()[*element].parent.is_some();
        if has_parent { self.append_before_sibling(element, child) } else { self.append(prev_element, child) }
    }
    fn append_doctype_to_document(&self, _n: StrTendril, _p: StrTendril, _s: StrTendril) {
        let c = self.a.new_node(Data::Doctype);
        self.a.append_node(0, c);
    }
    fn add_attrs_if_missing(&self, target: &usize, attrs: Vec<Attribute>) {
        let mut n = self.a.nodes.borrow_mut();
        if let Data::Element { attrs: ref mut ex, .. } = n[*target].data {
            for a in attrs {
                if !ex.iter().any(|e| e.name == a.name) { ex.push(a); }
            }
        }
    }
    fn remove_from_parent(&self, target: &usize) { self.a.detach(*target); }
    fn reparent_children(&self, node: &usize, new_parent: &usize) {
        let mut n = self.a.nodes.borrow_mut();
        let kids = std::mem::take(&mut n[*node].children);
        for &k in &kids { n[k].parent = Some(*new_parent); }
        n[*new_parent].children.extend(kids);
    }
    fn is_mathml_annotation_xml_integration_point(&self, target: &usize) -> bool {
        matches!(self.a.nodes.borrow()[*target].data, Data::Element { mathml_ip: true, .. })
    }
}

pub fn parse(bytes: &[u8]) -> Arena {
    let opts = ParseOpts {
        tree_builder: html5ever::tree_builder::TreeBuilderOpts { drop_doctype: true, ..Default::default() },
        ..Default::default()
    };
    let mut input = bytes;
    parse_document(Sink::new(), opts).from_utf8().read_from(&mut input).expect("read from slice")
}

pub fn cw(c: char) -> i64 { UnicodeWidthChar::width(c).map(|w| w as i64).unwrap_or(-1) }
pub fn cells(s: &str) -> Value { Value::Array(s.chars().map(|c| json!([c as u32, cw(c)])).collect()) }

/// Attributes the library reads; everything else is ignored by the abstraction.
const ATTRS: &[&str] = &["id", "name", "href", "alt", "src", "colspan", "start", "class", "style", "color", "bgcolor"];

/// "#rrggbb" -> [r, g, b]
fn hex_colour(v: &str) -> Option<Value> {
    let v = v.trim();
    if v.len() == 7 && v.starts_with('#') && v[1..].chars().all(|c| c.is_ascii_hexdigit()) {
        let n = u32::from_str_radix(&v[1..], 16).ok()?;
        Some(json!([(n >> 16) & 255, (n >> 8) & 255, n & 255]))
    } else { None }
}
/// Canonical style attribute (as written by the generators) -> declarations; anything else is "not ok".
/// This is abstraction of an attribute value, like cells for text: no cascade or matching here.
fn style_decls(v: &str) -> Value {
    let mut out = vec![];
    for part in v.split(';') {
        let part = part.trim();
        if part.is_empty() { continue; }
        let Some((p, val)) = part.split_once(':') else { return json!({"ok": false, "s": v}) };
        let (p, mut val) = (p.trim(), val.trim());
        let imp = val.ends_with("!important");
        if imp { val = val[..val.len() - 10].trim(); }
        let d = match (p, val) {
            ("color", c) => match hex_colour(c) { Some(c) => json!({"prop": "color", "val": c, "imp": imp}), None => return json!({"ok": false, "s": v}) },
            ("background-color", c) => match hex_colour(c) { Some(c) => json!({"prop": "bg", "val": c, "imp": imp}), None => return json!({"ok": false, "s": v}) },
            ("display", "none") => json!({"prop": "display", "val": "none", "imp": imp}),
            ("display", "block") => json!({"prop": "display", "val": "block", "imp": imp}),
            ("height", "0") | ("height", "0px") | ("max-height", "0") | ("max-height", "0px") => json!({"prop": "height", "val": 0, "imp": imp}),
            ("overflow", "hidden") | ("overflow-y", "hidden") => json!({"prop": "overflow", "val": "hidden", "imp": imp}),
            _ => return json!({"ok": false, "s": v}),
        };
        out.push(d);
    }
    json!({"ok": true, "s": v, "d": out})
}

fn attr_value(name: &str, v: &str) -> Value {
    match name {
        "class" => Value::Array(v.split_whitespace().map(|c| json!(c)).collect()),
        "style" => style_decls(v),
        "color" | "bgcolor" => match hex_colour(v) { Some(c) => json!({"ok": true, "v": c, "s": v}), None => json!({"ok": false, "s": v}) },
        "alt" => cells(v),
        "href" => json!({"s": v, "c": cells(v)}),
        // numeric attributes: the raw value as cells (the spec transcribes str::parse)
        "colspan" | "start" => json!({"s": v, "c": cells(v)}),
        _ => Value::String(v.to_string()),
    }
}

/// Abstract children of node `i` (iteratively: explicit stack; depth can be 10^5).
pub fn abstract_children(a: &Arena, root: usize, max_nodes: usize) -> Option<Value> {
    let nodes = a.nodes.borrow();
    if nodes.len() > max_nodes { return None; }
    // post-order build
    enum Op { Visit(usize), Build(usize) }
    let mut stack = vec![Op::Build(root)];
    for &c in nodes[root].children.iter().rev() { stack.push(Op::Visit(c)); }
    let mut out: Vec<Vec<Value>> = vec![vec![]];
    // marker stack: each Build pops the top vec
    // we process: Visit(n) -> push new vec, push Build(n), push Visit(children)
    let mut result = None;
    while let Some(op) = stack.pop() {
        match op {
            Op::Visit(n) => match &nodes[n].data {
                Data::Text(s) => out.last_mut().unwrap().push(json!({"k": "t", "s": cells(s)})),
                Data::Comment => out.last_mut().unwrap().push(json!({"k": "c"})),
                Data::Element { .. } => {
                    out.push(vec![]);
                    stack.push(Op::Build(n));
                    for &c in nodes[n].children.iter().rev() { stack.push(Op::Visit(c)); }
                }
                _ => {}
            },
            Op::Build(n) => {
                let kids = out.pop().unwrap();
                if n == root { result = Some(Value::Array(kids)); break; }
                if let Data::Element { name, attrs, .. } = &nodes[n].data {
                    let mut m = Map::new();
                    m.insert("k".into(), json!("e"));
                    m.insert("n".into(), json!(name.local.to_string()));
                    let html = &*name.ns == "http://www.w3.org/1999/xhtml";
                    m.insert("h".into(), json!(html));
                    let mut am = Map::new();
                    let mut ao: Vec<Value> = Vec::new();
                    // first occurrence wins, as in the library's attribute loops that `break`
                    for at in attrs {
                        let an = at.name.local.to_string();
                        if ATTRS.contains(&an.as_str()) && !am.contains_key(&an) {
                            am.insert(an.clone(), attr_value(&an, &at.value));
                            ao.push(json!(an));
                        }
                    }
                    m.insert("a".into(), Value::Object(am));
                    m.insert("ao".into(), Value::Array(ao));
                    m.insert("c".into(), Value::Array(kids));
                    out.last_mut().unwrap().push(Value::Object(m));
                }
            }
        }
    }
    result
}

pub fn abstract_dom(bytes: &[u8], max_nodes: usize) -> Option<Value> {
    let a = parse(bytes);
    abstract_children(&a, 0, max_nodes)
}
