//! TLC behaviour (abstract document JSON) -> HTML bytes.
use serde_json::Value;
pub fn cells_to_string(v: &Value) -> String {
    v.as_array().map(|a| a.iter().filter_map(|c| c[0].as_u64().and_then(|u| char::from_u32(u as u32))).collect()).unwrap_or_default()
}
pub fn node_html(n: &Value, out: &mut String) {
    match n["k"].as_str() {
        Some("t") => out.push_str(&crate::gen::esc(&cells_to_string(&n["s"]))),
        Some("c") => out.push_str("<!--c-->"),
        Some("e") => {
            let name = n["n"].as_str().unwrap_or("span");
            out.push('<'); out.push_str(name);
            if let Some(a) = n["a"].as_object() {
                for (k, v) in a {
                    let s = match v { Value::String(s) => s.clone(),
                                      Value::Array(a) if k == "class" => a.iter().filter_map(|x| x.as_str()).collect::<Vec<_>>().join(" "),
                                      Value::Object(o) if k == "style" => crate::cssgen::style_attr_text(o.get("d").and_then(|d| d.as_array()).map(|d| d.as_slice()).unwrap_or(&[])),
                                      Value::Array(_) => cells_to_string(v),
                                      Value::Object(o) => o.get("s").and_then(|x| x.as_str()).map(|x| x.to_string()).unwrap_or_else(|| cells_to_string(&o["c"])),
                                      other => other.to_string() };
                    out.push_str(&format!(" {}=\"{}\"", k, crate::gen::esc_attr(&s)));
                }
            }
            out.push('>');
            if ["br", "img", "hr"].contains(&name) { return; }
            if name == "pre" { if let Some(f) = n["c"].get(0) { if f["k"] == "t" && cells_to_string(&f["s"]).starts_with('\n') { out.push('\n'); } } }
            for c in n["c"].as_array().map(|a| a.as_slice()).unwrap_or(&[]) { node_html(c, out); }
            out.push_str(&format!("</{}>", name));
        }
        _ => {}
    }
}
pub fn doc_html(body: &Value) -> String {
    let mut s = String::from("<html><body>");
    for n in body.as_array().map(|a| a.as_slice()).unwrap_or(&[]) { node_html(n, &mut s); }
    s.push_str("</body></html>");
    s
}
/// concretize <behaviours.ndjson> <cases.ndjson>: each behaviour {id, body, runs:[{w,cfg,route}], meta} -> case with html
pub fn cmd(args: &[String]) -> i32 {
    use std::io::{BufRead, Write};
    let inp = std::io::BufReader::new(std::fs::File::open(&args[0]).expect("open"));
    let mut out = std::io::BufWriter::new(std::fs::File::create(&args[1]).expect("create"));
    for line in inp.lines() {
        let line = line.expect("read");
        let Ok(mut b) = serde_json::from_str::<Value>(&line) else { continue };
        if let Some(Value::Array(dbs)) = b.get("docbodies") {
            let docs: Vec<Value> = dbs.iter().map(|d| Value::String(doc_html(d))).collect();
            b["docs"] = Value::Array(docs);
            if let Some(o) = b.as_object_mut() { o.remove("docbodies"); }
            writeln!(out, "{}", b).expect("write");
            continue;
        }
        if let Some(Value::Array(toks)) = b.get("csssyn") {
            // a sheet of the parser model (MC_CssSyntax): tokens written with one blank between them into <style>;
            // meta.css.author = the abstract sheet the model predicts.  Well formed: run 1 = the canonical text of
            // the reference rules, run 2 = the sheet (kind variant); otherwise the sheet alone (kind total)
            let text: String = toks.iter().filter_map(|t| t.as_str()).collect::<Vec<_>>().join(" ");
            let doc = "<p class=\"x\" id=\"i\">ta <b>tb</b></p><div><b class=\"x\">tc</b> td</div>";
            let page = |css: &str| format!("<html><head><style>{}</style></head><body>{}</body></html>", css, doc);
            let cfgv = serde_json::json!({"deco": "rich", "ops": [["doccss"]]});
            let mk = |html: String| serde_json::json!({"html": html, "w": 30, "cfg": cfgv.clone(), "route": "lines"});
            let wf = b["wf"].as_bool().unwrap_or(false);
            let mut r = crate::gen::Rng::new(1);
            let runs = if wf { vec![mk(page(&crate::cssgen::sheet_text(&b["ref"], &mut r, &crate::cssgen::canonical()))), mk(page(&text))] } else { vec![mk(page(&text))] };
            let case = serde_json::json!({"id": b["id"], "meta": {"kind": if wf { "variant" } else { "total" }, "src": "MC_CssSyntax",
                                          "css": {"agent": [], "user": [], "author": b["pred"]}}, "runs": runs});
            writeln!(out, "{}", case).expect("write");
            continue;
        }
        if let Some(Value::Array(toks)) = b.get("csstoks") {
            // a CSS token sequence (MC_CssTok): once as user / agent sheet (total), once inside <style> against the
            // same document without it (inert)
            let text: String = toks.iter().filter_map(|t| t.as_str()).collect::<Vec<_>>().join("");
            let id = b["id"].as_str().unwrap_or("mc").to_string();
            let doc = "<p class=x id=i>ab <b>cd</b></p><ul><li>ef</li><li>gh</li></ul>";
            let cfgw = |ops: Value| serde_json::json!({"deco": "rich", "ops": ops});
            let total = serde_json::json!({"id": format!("{}:t", id), "dom": false, "meta": {"kind": "total", "src": "MC_CssTok"}, "runs": [
                {"html": doc, "w": 20, "cfg": cfgw(serde_json::json!([["css", text]])), "route": "lines"},
                {"html": doc, "w": 20, "cfg": cfgw(serde_json::json!([["agentcss", text]])), "route": "string"}]});
            writeln!(out, "{}", total).expect("write");
            if !text.contains("</") {
                let with = format!("<html><head><style>{}</style></head><body>{}</body></html>", text, doc);
                let without = format!("<html><head></head><body>{}</body></html>", doc);
                let inert = serde_json::json!({"id": format!("{}:i", id), "dom": false, "meta": {"kind": "inert", "src": "MC_CssTok"}, "runs": [
                    {"html": with, "w": 20, "cfg": cfgw(serde_json::json!([["doccss"]])), "route": "string"},
                    {"html": without, "w": 20, "cfg": cfgw(serde_json::json!([["doccss"]])), "route": "string"}]});
                writeln!(out, "{}", inert).expect("write");
            }
            continue;
        }
        if b["meta"].get("full").and_then(|x| x.as_bool()).unwrap_or(false) {
            // a whole document (html > head > style, body); the style element's text is the author sheet
            let css = b["meta"]["css"].clone();
            let mut r = crate::gen::Rng::new(1);
            let canon = crate::cssgen::canonical();
            let author = crate::cssgen::sheet_text(&css["author"], &mut r, &canon);
            let mut html = String::new();
            for n in b["body"].as_array().map(|a| a.as_slice()).unwrap_or(&[]) { node_html(n, &mut html); }
            let html = html.replace("<style>S</style>", &format!("<style>{}</style>", author));
            let mut extra = vec![];
            if css["agent"].as_array().map(|a| !a.is_empty()).unwrap_or(false) { extra.push(serde_json::json!(["agentcss", crate::cssgen::sheet_text(&css["agent"], &mut r, &canon)])); }
            if css["user"].as_array().map(|a| !a.is_empty()).unwrap_or(false) { extra.push(serde_json::json!(["css", crate::cssgen::sheet_text(&css["user"], &mut r, &canon)])); }
            if let Some(runs) = b.get_mut("runs").and_then(|r| r.as_array_mut()) {
                for run in runs.iter_mut() {
                    run["html"] = Value::String(html.clone());
                    let mut ops = extra.clone();
                    ops.extend(run["cfg"]["ops"].as_array().cloned().unwrap_or_default());
                    run["cfg"]["ops"] = Value::Array(ops);
                }
            }
            if let Some(o) = b.as_object_mut() { o.remove("body"); }
            writeln!(out, "{}", b).expect("write");
            continue;
        }
        let bodies: Vec<String> = match b.get("bodies") { Some(Value::Array(bs)) => bs.iter().map(doc_html).collect(), _ => vec![doc_html(&b["body"])] };
        if let Some(runs) = b.get_mut("runs").and_then(|r| r.as_array_mut()) {
            for r in runs.iter_mut() {
                let bi = r.get("b").and_then(|x| x.as_u64()).unwrap_or(1) as usize;
                r["html"] = Value::String(bodies[bi - 1].clone());
            }
        }
        if let Some(o) = b.as_object_mut() { o.remove("body"); o.remove("bodies"); }
        writeln!(out, "{}", b).expect("write");
    }
    0
}
