//! API histories (C10): parse / tree / clone / render in any order.
use serde_json::{json, Value};
pub fn run_history(_case: &Value, _h: &Value, _dom_max: usize) -> (Value, Value) { (json!([]), json!([])) }
