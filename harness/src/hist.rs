//! API histories (C10): one-shot routes and the staged route parse_html -> dom_to_render_tree ->
//! (clone) -> render_*, in any order, on live handles.  Every step's abstract result is recorded.
use crate::exec::{outcome_json, plain_lines, tagged_lines, AnnJson, Outcome};
use html2text::config::{self, Config};
use html2text::render::{PlainDecorator, RichDecorator, TextDecorator, TrivialDecorator};
use html2text::{Error, RcDom, RenderTree};
use serde_json::{json, Value};
use std::panic::{catch_unwind, AssertUnwindSafe};

fn err(e: Error) -> Outcome {
    match e { Error::TooNarrow => Outcome::Narrow, Error::CssParseError => Outcome::CssErr, o => Outcome::Fail(format!("{:?}", o)) }
}
/// join a tagged rendering to plain lines (what the string route prints)
fn lines_as_plain<A: AnnJson + std::fmt::Debug + Eq + PartialEq + Clone + Default>(l: &[html2text::render::TaggedLine<Vec<A>>]) -> Value {
    let mut v = tagged_lines(l);
    // strip tags and markers: keep [code, width]
    if let Some(ls) = v["lines"].as_array_mut() {
        for ln in ls.iter_mut() {
            let cells: Vec<Value> = ln.as_array().unwrap().iter().filter(|c| c[0].as_i64().unwrap_or(0) >= 0).map(|c| json!([c[0], c[1]])).collect();
            *ln = Value::Array(cells);
        }
    }
    v
}

/// `shared` is one configuration object used for every staged call of the history (the staged methods take
/// `&self`: nothing may be left behind in it by an earlier call); one-shot calls consume a fresh one.
struct World<D: TextDecorator> { mk: Box<dyn Fn() -> Config<D>>, shared: Config<D>, docs: Vec<Vec<u8>>, doms: Vec<RcDom>, trees: Vec<Option<RenderTree>> }

fn step<D: TextDecorator>(wd: &mut World<D>, op: &Value, rich: Option<&dyn Fn(Config<D>, &[u8], usize) -> Outcome>, rich_tree: Option<&dyn Fn(&Config<D>, RenderTree, usize) -> Outcome>) -> Value
where D::Annotation: AnnJson + std::fmt::Debug + Eq + PartialEq + Clone + Default {
    let name = op["op"].as_str().unwrap_or("");
    let w = op.get("w").and_then(|x| x.as_u64()).unwrap_or(0) as usize;
    let route = op.get("route").and_then(|x| x.as_str()).unwrap_or("string");
    let r = catch_unwind(AssertUnwindSafe(|| -> (Outcome, Value) {
        match name {
            "oneshot" => {
                let d = &wd.docs[op["doc"].as_u64().unwrap_or(1) as usize - 1];
                let c = (wd.mk)();
                let o = match route {
                    "lines" => match c.lines_from_read(&d[..], w) { Ok(l) => Outcome::Ok(lines_as_plain(&l)), Err(e) => err(e) },
                    "coloured" => match rich { Some(f) => f(c, d, w), None => Outcome::Fail("no coloured".into()) },
                    _ => match c.string_from_read(&d[..], w) { Ok(s) => Outcome::Ok(plain_lines(&s)), Err(e) => err(e) },
                };
                (o, json!(0))
            }
            "parse" => {
                let d = &wd.docs[op["doc"].as_u64().unwrap_or(1) as usize - 1];
                match wd.shared.parse_html(&d[..]) { Ok(dom) => { wd.doms.push(dom); (Outcome::Ok(json!({"lines": [], "sw": []})), json!(wd.doms.len())) } Err(e) => (err(e), json!(0)) }
            }
            "tree" => {
                let k = op["dom"].as_u64().unwrap_or(1) as usize - 1;
                match wd.shared.dom_to_render_tree(&wd.doms[k]) { Ok(t) => { wd.trees.push(Some(t)); (Outcome::Ok(json!({"lines": [], "sw": []})), json!(wd.trees.len())) } Err(e) => (err(e), json!(0)) }
            }
            "clone" => {
                let t = op["tree"].as_u64().unwrap_or(1) as usize - 1;
                let c = wd.trees[t].as_ref().expect("live tree").clone();
                wd.trees.push(Some(c));
                (Outcome::Ok(json!({"lines": [], "sw": []})), json!(wd.trees.len()))
            }
            "render" => {
                let t = op["tree"].as_u64().unwrap_or(1) as usize - 1;
                let tree = wd.trees[t].take().expect("live tree");
                let c = &wd.shared;
                let o = match route {
                    "lines" => match c.render_to_lines(tree, w) { Ok(l) => Outcome::Ok(lines_as_plain(&l)), Err(e) => err(e) },
                    "coloured" => match rich_tree { Some(f) => f(c, tree, w), None => Outcome::Fail("no coloured".into()) },
                    _ => match c.render_to_string(tree, w) { Ok(s) => Outcome::Ok(plain_lines(&s)), Err(e) => err(e) },
                };
                (o, json!(0))
            }
            _ => (Outcome::Fail("unknown op".into()), json!(0)),
        }
    }));
    let (o, h) = match r { Ok(x) => x, Err(_) => (Outcome::Panic(crate::exec::LAST_PANIC.with(|p| p.borrow().clone())), json!(0)) };
    let mut rec = op.clone();
    rec["res"] = outcome_json(o);
    rec["handle"] = h;
    if rec.get("w").is_none() { rec["w"] = json!(0); }
    if rec.get("route").is_none() { rec["route"] = json!(""); }
    for k in ["doc", "dom", "tree"] { if rec.get(k).is_none() { rec[k] = json!(0); } }
    rec
}

fn run_with<D: TextDecorator + 'static>(mk: Box<dyn Fn() -> Config<D>>, case: &Value, h: &Value,
    rich: Option<&dyn Fn(Config<D>, &[u8], usize) -> Outcome>, rich_tree: Option<&dyn Fn(&Config<D>, RenderTree, usize) -> Outcome>) -> Value
where D::Annotation: AnnJson + std::fmt::Debug + Eq + PartialEq + Clone + Default {
    let docs: Vec<Vec<u8>> = case["docs"].as_array().map(|a| a.iter().map(|d| d.as_str().unwrap_or("").as_bytes().to_vec()).collect()).unwrap_or_default();
    let shared = mk();
    let mut wd = World { mk, shared, docs, doms: vec![], trees: vec![] };
    let mut out = vec![];
    for op in h.as_array().map(|a| a.as_slice()).unwrap_or(&[]) { out.push(step(&mut wd, op, rich, rich_tree)); }
    Value::Array(out)
}

fn apply_simple<D: TextDecorator>(mut c: Config<D>, ops: &[Value]) -> Config<D> {
    for op in ops {
        let n = op[1].as_u64().unwrap_or(0) as usize;
        let b = op[1].as_bool().unwrap_or(false);
        c = match op[0].as_str().unwrap_or("") {
            "max_wrap" => c.max_wrap_width(n), "min_wrap" => c.min_wrap_width(n), "pad" => c.pad_block_width(),
            "overflow" => c.allow_width_overflow(), "raw" => c.raw_mode(b), "noborders" => c.no_table_borders(),
            "nolinkwrap" => c.no_link_wrapping(), "footnotes" => c.link_footnotes(b), "strike" => c.unicode_strikeout(b),
            "decorate" => c.do_decorate(), "doccss" => c.use_doc_css(), _ => c,
        };
    }
    c
}

pub fn run_history(case: &Value, h: &Value, dom_max: usize) -> (Value, Value) {
    let cfg = case.get("cfg").cloned().unwrap_or(json!({"deco": "plain", "ops": []}));
    let ops: Vec<Value> = cfg["ops"].as_array().cloned().unwrap_or_default();
    let docs: Vec<Value> = case["docs"].as_array().map(|a| a.iter().map(|d| crate::dom::abstract_dom(d.as_str().unwrap_or("").as_bytes(), dom_max).unwrap_or(json!([{"k": "big"}]))).collect()).unwrap_or_default();
    let steps = match cfg["deco"].as_str().unwrap_or("plain") {
        "rich" => {
            let o2 = ops.clone();
            let col = |c: Config<RichDecorator>, d: &[u8], w: usize| match c.coloured(d, w, |_, s| s.to_string()) { Ok(s) => Outcome::Ok(plain_lines(&s)), Err(e) => err(e) };
            let colt = |c: &Config<RichDecorator>, t: RenderTree, w: usize| match c.render_coloured(t, w, |_, s| s.to_string()) { Ok(s) => Outcome::Ok(plain_lines(&s)), Err(e) => err(e) };
            run_with(Box::new(move || apply_simple(config::rich(), &o2)), case, h, Some(&col), Some(&colt))
        }
        "trivial" => { let o2 = ops.clone(); run_with(Box::new(move || apply_simple(config::with_decorator(TrivialDecorator::new()), &o2)), case, h, None, None) }
        "plain_nd" => { let o2 = ops.clone(); run_with::<PlainDecorator>(Box::new(move || apply_simple(config::plain_no_decorate(), &o2)), case, h, None, None) }
        _ => { let o2 = ops.clone(); run_with::<PlainDecorator>(Box::new(move || apply_simple(config::plain(), &o2)), case, h, None, None) }
    };
    (Value::Array(docs), steps)
}
