//! Case families: which runs each property needs. One entry per property group.
use crate::gen::*;
use serde_json::{json, Value};
use std::collections::HashMap;

fn id(fam: &str, i: u64) -> String { format!("{}-{}", fam, i) }

pub fn gen_case(fam: &str, r: &mut Rng, i: u64, p: &HashMap<String, String>) -> Vec<Value> {
    match fam {
        "c02" => c02(r, i, p),
        "c03" => c03(r, i, p),
        "c04" => c04(r, i, p),
        "c12" => c12(r, i, p),
        _ => vec![],
    }
}

fn wmax(p: &HashMap<String, String>, d: u64) -> u64 { p.get("wmax").and_then(|s| s.parse().ok()).unwrap_or(d) }

/// C02: full grammar, all option mixes without overflow / no_link_wrapping, widths 1..wmax.
fn c02(r: &mut Rng, i: u64, p: &HashMap<String, String>) -> Vec<Value> {
    let mut f = if r.chance(1, 2) { Feat::all() } else { Feat::notables() };
    f.ids = r.chance(1, 4);
    let mut g = G::new(r, f);
    let body = g.flow(0);
    let html = doc_html(&body);
    let deco = deco_std(r);
    let ops = opts_c02(r);
    let route = route_for(deco, r);
    let wm = wmax(p, 120);
    let w = if r.chance(2, 3) { r.range(1, 30.min(wm)) } else { r.range(1, wm) };
    vec![json!({"id": id("c02", i), "runs": [run(&html, w, cfg(deco, ops), route)]})]
}

/// C03: text preservation; decorators trivial/plain/rich, option mixes that still yield Ok.
fn c03(r: &mut Rng, i: u64, p: &HashMap<String, String>) -> Vec<Value> {
    let mut f = if r.chance(1, 2) { Feat::all() } else { Feat::notables() };
    f.ids = r.chance(1, 4);
    let mut g = G::new(r, f);
    let body = g.flow(0);
    let html = doc_html(&body);
    let deco = *r.pick(&["plain", "rich", "trivial", "plain_nd"]);
    let mut ops = opts_c02(r);
    if r.chance(1, 5) { ops.push(json!(["overflow"])); }
    if r.chance(1, 8) { ops.push(json!(["nolinkwrap"])); }
    let route = route_for(deco, r);
    let wm = wmax(p, 200);
    let w = if r.chance(2, 3) { r.range(1, 40.min(wm)) } else { r.range(1, wm) };
    vec![json!({"id": id("c03", i), "runs": [run(&html, w, cfg(deco, ops), route)]})]
}

/// C04: one paragraph = words split arbitrarily across text nodes and inline elements; bare, under
/// max_wrap_width, or inside one prefixed block.  Decorators without inline affixes.
fn c04(r: &mut Rng, i: u64, _p: &HashMap<String, String>) -> Vec<Value> {
    let nwords = if r.chance(1, 3) { r.range(1, 60) } else { r.range(1, 8) };
    let alpha: Vec<char> = "abcdefghijklmnopqrstuvwxyz".chars().collect();
    // a flat list of pieces: word characters and separators, then cut into inline structure
    let mut pieces: Vec<String> = Vec::new();
    if r.chance(1, 4) { pieces.push(" ".into()); }
    for k in 0..nwords {
        if k > 0 { pieces.push(match r.below(8) { 0 => "  ".into(), 1 => "\n".into(), 2 => "\t ".into(), 3 => " \n  ".into(), _ => " ".into() }); }
        let len = if r.chance(1, 8) { r.range(8, 30) } else { r.range(1, 7) };
        let mut wd = String::new();
        let mut wsum = 0;
        while wsum < len {
            match r.below(12) { 0 => { wd.push(*r.pick(&['一', '語', '🎉'])); wsum += 2; }
                                1 if !wd.is_empty() => { wd.push('\u{301}'); }
                                _ => { wd.push(*r.pick(&alpha)); wsum += 1; } }
        }
        // split the word itself across nodes sometimes
        if wd.chars().count() > 1 && r.chance(1, 4) {
            let cut = r.range(1, wd.chars().count() as u64 - 1) as usize;
            let a: String = wd.chars().take(cut).collect(); let b: String = wd.chars().skip(cut).collect();
            pieces.push(a); pieces.push(b);
        } else { pieces.push(wd); }
    }
    if r.chance(1, 4) { pieces.push(" ".into()); }
    // group consecutive pieces into text nodes / inline elements
    fn build(r: &mut Rng, pieces: &[String], depth: u32) -> Vec<N> {
        let mut out = Vec::new();
        let mut k = 0;
        while k < pieces.len() {
            let take = 1 + r.below(4.min((pieces.len() - k) as u64)) as usize;
            let chunk = &pieces[k..k + take];
            k += take;
            if depth < 3 && r.chance(1, 3) {
                let name = *r.pick(&["em", "strong", "code", "span", "a", "i"]);
                let kids = build(r, chunk, depth + 1);
                out.push(if name == "a" { N::ela("a", vec![("href", "//0.0/1".to_string())], kids) } else { N::el(name, kids) });
            } else {
                let t: String = chunk.concat();
                if let Some(N::T(prev)) = out.last_mut() { prev.push_str(&t); } else { out.push(N::T(t)); }
            }
        }
        out
    }
    let inl = build(r, &pieces, 0);
    let kind = r.below(4);
    let deco = if kind >= 2 { "rich" } else { *r.pick(&["rich", "trivial"]) };
    let (body, pw) = match kind {
        2 => (vec![N::el("blockquote", vec![N::el("p", inl)])], 2u64),
        3 => (vec![N::el("ul", vec![N::el("li", vec![N::el("p", inl)])])], 2),
        _ => (vec![N::el("p", inl)], 0),
    };
    let mut ops = vec![];
    let mut m: i64 = -1;
    if r.chance(1, 3) { m = r.range(1, 40) as i64; ops.push(json!(["max_wrap", m])); }
    let w = if pw > 0 { r.range(pw + 5, 40) } else { r.range(1, 40) };
    let html = doc_html(&body);
    vec![json!({"id": id("c04", i), "meta": {"pw": pw, "m": m}, "runs": [run(&html, w, cfg(deco, ops), "string")]})]
}

/// C12: one <pre> block of 1..8 lines over words / space runs / tabs / wide chars, optionally with
/// inline elements and <br>, optionally nested in a list item or quote; rich lines route.
fn c12(r: &mut Rng, i: u64, _p: &HashMap<String, String>) -> Vec<Value> {
    let nlines = r.range(1, 8);
    let alpha: Vec<char> = "abcdefghijklmnopqrstuvwxyz".chars().collect();
    let mut kids: Vec<N> = Vec::new();
    let mut cur = String::new();
    let short = r.chance(1, 2);
    for l in 0..nlines {
        if l > 0 {
            if r.chance(1, 6) { if !cur.is_empty() { kids.push(N::T(std::mem::take(&mut cur))); } kids.push(N::el("br", vec![])); }
            else { cur.push('\n'); }
        }
        let ntok = if r.chance(1, 6) { 0 } else { r.range(1, if short { 4 } else { 10 }) };
        for _ in 0..ntok {
            match r.below(10) {
                0 | 1 | 2 => for _ in 0..r.range(1, 5) { cur.push(' ') },
                3 => cur.push('\t'),
                4 => cur.push(*r.pick(&['一', '語', '🎉'])),
                5 if r.chance(1, 2) => {
                    // an inline element around a word
                    if !cur.is_empty() { kids.push(N::T(std::mem::take(&mut cur))); }
                    let wd: String = (0..r.range(1, 6)).map(|_| *r.pick(&alpha)).collect();
                    kids.push(N::el(*r.pick(&["em", "span", "strong", "code"]), vec![N::T(wd)]));
                }
                _ => for _ in 0..r.range(1, 8) { cur.push(*r.pick(&alpha)) },
            }
        }
    }
    if !cur.is_empty() { kids.push(N::T(cur)); }
    if kids.is_empty() { kids.push(N::T("x".into())); }
    let pre = N::el("pre", kids);
    let (body, pw) = match r.below(4) {
        0 => (vec![N::el("blockquote", vec![pre])], 2u64),
        1 => (vec![N::el("ul", vec![N::el("li", vec![pre])])], 2),
        _ => (vec![pre], 0),
    };
    let w = r.range(1, 60);
    let html = doc_html(&body);
    let rich = r.chance(2, 3);
    let (deco, route) = if rich { ("rich", "lines") } else { (*r.pick(&["trivial", "rich"]), "string") };
    // the trivial decorator has no block prefixes
    let pw = if deco == "trivial" { 0 } else { pw };
    vec![json!({"id": id("c12", i), "meta": {"pw": pw}, "runs": [run(&html, w, cfg(deco, vec![]), route)]})]
}
