//! Case families: which runs each property needs. One entry per property group.
use crate::gen::*;
use crate::cssgen::*;
use serde_json::{json, Value};
use std::collections::HashMap;

fn id(fam: &str, i: u64) -> String { format!("{}-{}", fam, i) }

pub fn gen_case(fam: &str, r: &mut Rng, i: u64, p: &HashMap<String, String>) -> Vec<Value> {
    match fam {
        "c02" => c02(r, i, p),
        "c03" => c03(r, i, p),
        "c04" => c04(r, i, p),
        "c12" => c12(r, i, p),
        "c11" => c11(r, i, p),
        "c14" => c14(r, i, p),
        "c07" => c07(r, i, p),
        "c10" => c10(r, i, p),
        "c17" => c17(r, i, p),
        "c18" => c18(r, i, p),
        "c19" => c19(r, i, p),
        "c20" => c20(r, i, p),
        "c01" => c01(r, i, p),
        "c16" => c16(r, i, p),
        "c05" => c05(r, i, p),
        "c06" => c06(r, i, p),
        "c08" => c08(r, i, p),
        "c09" => c09(r, i, p),
        "c13" => c13(r, i, p),
        "c15" => c15(r, i, p),
        _ => vec![],
    }
}

fn wmax(p: &HashMap<String, String>, d: u64) -> u64 { p.get("wmax").and_then(|s| s.parse().ok()).unwrap_or(d) }

/// C02: full grammar, all option mixes without overflow / no_link_wrapping, widths 1..wmax.
fn c02(r: &mut Rng, i: u64, p: &HashMap<String, String>) -> Vec<Value> {
    let mut f = if r.chance(1, 2) { Feat::all() } else { Feat::notables() };
    f.vs16 = true;      // emoji presentation sequences (the recorded finding emoji-presentation-sequence lives here)
    f.ids = r.chance(1, 4);
    f.stray = r.chance(1, 3);
    f.sup = r.chance(1, 3);
    f.odd_href = r.chance(1, 2);
    // a shape of its own: prefixed blocks whose content has no width at all (an empty table, an image without alt, an
    // empty inline element, a lone marker), nested, at widths the prefixes alone use up
    if r.chance(1, 25) {
        fn hollow(r: &mut Rng, depth: u32) -> String {
            let inner = if depth < 3 && r.chance(1, 2) { hollow(r, depth + 1) } else {
                (*r.pick(&["<table><tr><td></td></tr></table>", "<table><tr><td></td><td></td></tr><tr><td></td></tr></table>", "<img src=\"x\">", "<span id=\"m\"></span>",
                           "<table><tr><td><img src=\"x\"></td></tr></table>", "<em></em>", "<table></table>", "<hr>", "<p></p>"])).to_string() };
            let extra = if r.chance(1, 4) { "<table><tr><td></td></tr></table>" } else { "" };
            match r.below(6) { 0 => format!("<blockquote>{}{}</blockquote>", inner, extra), 1 => format!("<ul><li>{}{}</li></ul>", inner, extra), 2 => format!("<ol start=\"{}\"><li>{}</li></ol>", r.pick(&[1, 9, 99, -5]), inner),
                               3 => format!("<h{}>{}</h{}>", 1 + depth, inner, 1 + depth), 4 => format!("<dl><dd>{}</dd></dl>", inner), _ => format!("<dl><dt>{}</dt><dd>{}</dd></dl>", extra, inner) }
        }
        let html = format!("<html><body>{}{}</body></html>", hollow(r, 0), if r.chance(1, 3) { "<p>a</p>" } else { "" });
        let deco = deco_std(r);
        let mut ops = opts_c02(r);
        if r.chance(1, 3) { ops.push(json!(["min_wrap", r.below(3)])); }
        let route = route_for(deco, r);
        return vec![json!({"id": id("c02", i), "runs": [run(&html, r.range(1, 8), cfg(deco, ops), route)]})];
    }
    let mut g = G::new(r, f);
    let body = g.flow(0);
    let html = doc_html(&body);
    let deco = deco_std(r);
    let ops = opts_c02(r);
    let route = route_for(deco, r);
    let wm = wmax(p, 120);
    let w = if r.chance(2, 3) { r.range(1, 30.min(wm)) } else { r.range(1, wm) };
    vec![json!({"id": id("c02", i), "runs": [run(&html, w, cfg(deco, ops), route)]})]
}

/// C03: text preservation; decorators trivial/plain/rich, option mixes that still yield Ok.
fn c03(r: &mut Rng, i: u64, p: &HashMap<String, String>) -> Vec<Value> {
    let mut f = if r.chance(1, 2) { Feat::all() } else { Feat::notables() };
    f.ids = r.chance(1, 4);
    f.stray = r.chance(1, 2);
    f.sup = r.chance(1, 3);
    let mut g = G::new(r, f);
    let mut body = g.flow(0);
    let pressure = r.chance(1, 8);
    if pressure { let mut cells = vec![]; let t = pressure_table(r, &mut cells); let at = r.below(body.len() as u64 + 1) as usize; body.insert(at, t); }
    // a shape of its own: a table inside a cell whose only text sits in a cell spanning columns that are otherwise
    // empty (its size estimate is spread over the columns it spans: nothing of it may be rounded away)
    if r.chance(1, 15) {
        let k = r.range(2, 5) as usize;
        let word: String = (0..r.range(1, 4)).map(|j| (b'q' + j as u8) as char).collect();
        let inner = N::el("table", vec![N::el("tr", (0..k).map(|_| N::el("td", vec![])).collect()),
                                        N::el("tr", vec![N::ela("td", vec![("colspan", format!("{}", k))], vec![N::T(word)])])]);
        let other = N::el("td", vec![N::T("aaaa bbbb cccc".into())]);
        let cell = N::el("td", vec![inner]);
        let row = if r.chance(1, 2) { vec![other, cell] } else { vec![cell, other] };
        let html = doc_html(&[N::el("table", vec![N::el("tr", row)])]);
        let deco = *r.pick(&["plain", "rich", "trivial"]);
        return vec![json!({"id": id("c03", i), "runs": [run(&html, r.range(8, 60), cfg(deco, vec![]), route_for(deco, r))]})];
    }
    // a shape of its own: short cells around columns that are empty in every row, at widths around the least
    // width the table needs side by side (every text must survive, however the room is given out)
    if r.chance(1, 12) {
        let ncols = r.range(3, 7) as usize; let nrows = r.range(1, 3) as usize;
        let empty: Vec<bool> = (0..ncols).map(|c| c > 0 && c + 1 < ncols && r.chance(1, 2)).collect();
        let mut tok = 0u32;
        let rows: Vec<N> = (0..nrows).map(|_| N::el("tr", (0..ncols).map(|c| { if empty[c] { N::el("td", vec![]) } else { tok += 1; let n = r.range(1, 3); let s: String = (0..n).map(|k| (b'a' + ((tok as u8 * 3 + k as u8) % 26)) as char).collect(); N::el("td", vec![N::T(s)]) } }).collect())).collect();
        let html = doc_html(&[N::el("table", rows)]);
        let deco = *r.pick(&["plain", "rich", "trivial"]);
        return vec![json!({"id": id("c03", i), "runs": [run(&html, r.range(1, 3 * ncols as u64 + 2), cfg(deco, vec![]), route_for(deco, r))]})];
    }
    let html = doc_html(&body);
    let deco = *r.pick(&["plain", "rich", "trivial", "plain_nd"]);
    let mut ops = opts_c02(r);
    if r.chance(1, 5) { ops.push(json!(["overflow"])); }
    if r.chance(1, 8) { ops.push(json!(["nolinkwrap"])); }
    let route = route_for(deco, r);
    let wm = wmax(p, 200);
    let w = if pressure { r.range(6, 60) } else if r.chance(2, 3) { r.range(1, 40.min(wm)) } else { r.range(1, wm) };
    vec![json!({"id": id("c03", i), "runs": [run(&html, w, cfg(deco, ops), route)]})]
}

/// C04: one paragraph = words split arbitrarily across text nodes and inline elements; bare, under
/// max_wrap_width, or inside one prefixed block.  Decorators without inline affixes.
fn c04(r: &mut Rng, i: u64, _p: &HashMap<String, String>) -> Vec<Value> {
    let nwords = if r.chance(1, 3) { r.range(1, 60) } else { r.range(1, 8) };
    let alpha: Vec<char> = "abcdefghijklmnopqrstuvwxyz".chars().collect();
    // a flat list of pieces: word characters and separators, then cut into inline structure
    // (some words contain control characters, which have no width and are dropped)
    let mut pieces: Vec<String> = Vec::new();
    if r.chance(1, 4) { pieces.push(" ".into()); }
    for k in 0..nwords {
        if k > 0 { pieces.push(match r.below(12) { 0 => "  ".into(), 1 => "\n".into(), 2 => "\t ".into(), 3 => " \n  ".into(), 4 => "\u{3000}".into(), 5 => "\u{2003}".into(), 6 => "\u{a0} ".into(), _ => " ".into() }); }
        let len = if r.chance(1, 8) { r.range(8, 30) } else { r.range(1, 7) };
        let mut wd = String::new();
        let mut wsum = 0;
        while wsum < len {
            match r.below(12) { 0 => { wd.push(*r.pick(&['一', '語', '🎉'])); wsum += 2; }
                                1 if !wd.is_empty() => { wd.push('\u{301}'); }
                                2 if r.chance(1, 6) => { wd.push(*r.pick(&['\u{1}', '\u{1b}', '\u{7f}'])); }
                                _ => { wd.push(*r.pick(&alpha)); wsum += 1; } }
        }
        // split the word itself across nodes sometimes
        if wd.chars().count() > 1 && r.chance(1, 4) {
            let cut = r.range(1, wd.chars().count() as u64 - 1) as usize;
            let a: String = wd.chars().take(cut).collect(); let b: String = wd.chars().skip(cut).collect();
            pieces.push(a); pieces.push(b);
        } else { pieces.push(wd); }
    }
    if r.chance(1, 4) { pieces.push(" ".into()); }
    // group consecutive pieces into text nodes / inline elements
    fn build(r: &mut Rng, pieces: &[String], depth: u32) -> Vec<N> {
        let mut out = Vec::new();
        let mut k = 0;
        while k < pieces.len() {
            let take = 1 + r.below(4.min((pieces.len() - k) as u64)) as usize;
            let chunk = &pieces[k..k + take];
            k += take;
            if depth < 3 && r.chance(1, 3) {
                let name = *r.pick(&["em", "strong", "code", "span", "a", "i"]);
                let kids = build(r, chunk, depth + 1);
                let mut n = if name == "a" { N::ela("a", vec![("href", "//0.0/1".to_string())], kids) } else { N::el(name, kids) };
                // (fragment markers: they have no width and must not change the layout)
                if r.chance(1, 5) { n.add_attr(if name == "a" && r.chance(1, 2) { "name" } else { "id" }, format!("f{}", r.below(1000))); }
                out.push(n);
            } else {
                let t: String = chunk.concat();
                if let Some(N::T(prev)) = out.last_mut() { prev.push_str(&t); } else { out.push(N::T(t)); }
            }
        }
        out
    }
    let inl = build(r, &pieces, 0);
    let kind = r.below(4);
    let deco = if kind >= 2 { "rich" } else { *r.pick(&["rich", "trivial"]) };
    let mut para = N::el("p", inl);
    if r.chance(1, 4) { para.add_attr("id", format!("p{}", r.below(1000))); }
    let kind = if kind == 3 && r.chance(1, 2) { 4 } else { kind };
    let (body, pw) = match kind {
        2 => (vec![N::el("blockquote", vec![para])], 2u64),
        3 => (vec![N::el("ul", vec![N::el("li", vec![para])])], 2),
        // the only item of an ordered list, numbered 9 / 99 / 1 / 5: the marker is as wide as that number needs
        4 => { let st = *r.pick(&[9u64, 99, 1, 5, 999]); (vec![N::ela("ol", vec![("start", format!("{}", st))], vec![N::el("li", vec![para])])], format!("{}. ", st).len() as u64) }
        _ => (vec![para], 0),
    };
    let mut ops = vec![];
    let mut m: i64 = -1;
    if r.chance(1, 3) { m = r.range(1, 40) as i64; ops.push(json!(["max_wrap", m])); }
    let w = if pw > 0 { r.range(pw + 5, 40) } else { r.range(1, 40) };
    let html = doc_html(&body);
    vec![json!({"id": id("c04", i), "meta": {"pw": pw, "m": m}, "runs": [run(&html, w, cfg(deco, ops), "string")]})]
}

/// C12: one <pre> block of 1..8 lines over words / space runs / tabs / wide chars, optionally with
/// inline elements and <br>, optionally nested in a list item or quote; rich lines route.
fn c12(r: &mut Rng, i: u64, _p: &HashMap<String, String>) -> Vec<Value> {
    let nlines = r.range(1, 8);
    let alpha: Vec<char> = "abcdefghijklmnopqrstuvwxyz".chars().collect();
    let mut kids: Vec<N> = Vec::new();
    let mut cur = String::new();
    let short = r.chance(1, 2);
    let mut css = false;
    for l in 0..nlines {
        if l > 0 {
            if r.chance(1, 6) { if !cur.is_empty() { kids.push(N::T(std::mem::take(&mut cur))); } kids.push(N::el("br", vec![])); }
            else { cur.push('\n'); }
        }
        let ntok = if r.chance(1, 6) { 0 } else { r.range(1, if short { 4 } else { 10 }) };
        for _ in 0..ntok {
            match r.below(10) {
                0 | 1 | 2 => for _ in 0..r.range(1, 5) { cur.push(' ') },
                3 => cur.push('\t'),
                4 => cur.push(*r.pick(&['一', '語', '🎉'])),
                5 if r.chance(1, 2) => {
                    // an inline element around a word
                    if !cur.is_empty() { kids.push(N::T(std::mem::take(&mut cur))); }
                    let wd: String = (0..r.range(1, 6)).map(|_| *r.pick(&alpha)).collect();
                    let mut e = N::el(*r.pick(&["em", "span", "strong", "code"]), vec![N::T(wd)]);
                    // a white-space mode of its own on the word (CSS): the rest of the block stays preformatted
                    if r.chance(1, 6) {
                        css = true;
                        if r.chance(1, 2) { e.add_attr("style", format!("white-space: {}", *r.pick(&["normal", "nowrap", "pre-line"]))); } else { e.add_attr("class", "kw".to_string()); }
                    }
                    kids.push(e);
                }
                _ => for _ in 0..r.range(1, 8) { cur.push(*r.pick(&alpha)) },
            }
        }
    }
    if !cur.is_empty() { kids.push(N::T(cur)); }
    if kids.is_empty() { kids.push(N::T("x".into())); }
    let pre = N::el("pre", kids);
    let (body, pw) = match r.below(4) {
        0 => (vec![N::el("blockquote", vec![pre])], 2u64),
        1 => (vec![N::el("ul", vec![N::el("li", vec![pre])])], 2),
        _ => (vec![pre], 0),
    };
    // (with such a word the width leaves every line unwrapped: a word in normal mode wraps differently)
    let w = if css { r.range(150, 200) } else { r.range(1, 60) };
    let html = doc_html(&body);
    let rich = r.chance(2, 3);
    let (deco, route) = if rich { ("rich", "lines") } else { (*r.pick(&["trivial", "rich"]), "string") };
    // the trivial decorator has no block prefixes
    let pw = if deco == "trivial" { 0 } else { pw };
    let ops = if css { vec![json!(["doccss"]), json!(["css", ".kw { white-space: normal }"])] } else { vec![] };
    vec![json!({"id": id("c12", i), "meta": {"pw": pw}, "runs": [run(&html, w, cfg(deco, ops), route)]})]
}

fn tagged(mut run: Value, tag: &str) -> Value { run["tag"] = json!(tag); run }
fn run_hx(bytes: &[u8], w: u64, cfg: Value, route: &str) -> Value { json!({"hx": hex(bytes), "w": w, "cfg": cfg, "route": route}) }
fn any_opts(r: &mut Rng) -> Vec<Value> {
    let mut ops = opts_c02(r);
    if r.chance(1, 8) { ops.push(json!(["nolinkwrap"])); }
    ops
}

/// C11: (d, 0, o), (d, w, o), (d, w, o + overflow); documents from the grammar and their byte mutations.
fn c11(r: &mut Rng, i: u64, p: &HashMap<String, String>) -> Vec<Value> {
    let mut f = if r.chance(1, 2) { Feat::all() } else { Feat::notables() };
    f.vs16 = true;      // emoji presentation sequences (the recorded finding emoji-presentation-sequence lives here)
    f.ids = r.chance(1, 5);
    f.odd_href = r.chance(1, 2);
    f.sup = r.chance(1, 4);
    let mut g = G::new(r, f);
    let mut body = g.flow(0);
    // a shape of its own: an ordered list whose last number is 9 / 99 / 999 (the marker width changes right after
    // it), inside 0-2 prefixed blocks, with a link or a word in the items; narrow widths, larger minimum wrap widths
    let edge = r.chance(1, 6);
    if edge {
        let last = *r.pick(&[9i64, 9, 99, 999, 10, 100]);
        let m = r.range(1, 3) as i64;
        let items: Vec<N> = (0..m).map(|k| N::el("li", vec![if r.chance(1, 2) { N::ela("a", vec![("href", "//0.0/1".to_string())], vec![N::T(format!("w{}", k))]) } else { N::T(format!("word{} x", k)) }])).collect();
        let mut node = N::ela("ol", vec![("start", format!("{}", last - m + 1))], items);
        for _ in 0..r.below(3) { node = match r.below(3) { 0 => N::el("blockquote", vec![node]), 1 => N::el("ul", vec![N::el("li", vec![node])]), _ => N::el("dl", vec![N::el("dd", vec![node])]) }; }
        body = vec![node];
    }
    // another shape: a block whose content has no width (so it may be laid out at width 0), holding preformatted text
    // with tabs, blanks and characters without width, inside prefixed blocks at widths the prefixes use up
    let edge2 = !edge && r.chance(1, 12);
    if edge2 {
        let zw = *r.pick(&["\u{200b}", "\u{1}", "\u{200d}", "\u{301}", ""]);
        let tail = *r.pick(&["\t", "\t\t", " \t", "  ", "\t \n\t", "\n"]);
        let mut node = N::el("pre", vec![N::T(format!("{}{}", zw, tail))]);
        for _ in 0..r.range(1, 3) { node = match r.below(5) { 0 => N::el("blockquote", vec![node]), 1 => N::el("ul", vec![N::el("li", vec![node])]), 2 => N::el("ol", vec![N::el("li", vec![node])]), 3 => N::el("h2", vec![node]), _ => N::el("dl", vec![N::el("dd", vec![node])]) }; }
        body = vec![node];
    }
    // and one more: a table most of whose columns are empty in every row, at widths below the number of columns
    let edge3 = !edge && !edge2 && r.chance(1, 15);
    if edge3 {
        let ncols = r.range(2, 7) as usize; let nrows = r.range(1, 3);
        let full = r.below(ncols as u64) as usize;
        let rows: Vec<N> = (0..nrows).map(|_| N::el("tr", (0..ncols).map(|c| if c == full || r.chance(1, 8) { N::el("td", vec![N::T("a".into())]) } else { N::el("td", vec![]) }).collect())).collect();
        body = vec![N::el("table", rows)];
    }
    let edge2 = edge2 || edge3;
    let edge = edge || edge2;
    let html = doc_html(&body);
    let bytes = if !edge && r.chance(1, 3) { mutate(r, html.as_bytes()) } else { html.into_bytes() };
    let deco = deco_std(r);
    let mut ops = any_opts(r);
    if edge { ops.retain(|o| o[0] != "min_wrap"); if r.chance(2, 3) { ops.push(json!(["min_wrap", r.range(4, 9)])); } }
    let mut ops_o = ops.clone();
    ops_o.push(json!(["overflow"]));
    let route = if deco == "rich" { "lines" } else { "string" };
    let w = if edge2 { r.range(1, 5) } else if edge { r.range(1, 14) } else { r.range(1, wmax(p, 60)) };
    vec![json!({"id": id("c11", i), "runs": [
        tagged(run_hx(&bytes, 0, cfg(deco, ops.clone()), route), "zero"),
        tagged(run_hx(&bytes, w, cfg(deco, ops), route), "base"),
        tagged(run_hx(&bytes, w, cfg(deco, ops_o), route), "ovf")]})]
}

// ---- C13 rewrites on the generator tree -------------------------------------------------------
fn ws_run(r: &mut Rng) -> String { (*r.pick(&[" ", "  ", "\n", "\t", " \n ", "\n\n", "\t \t", "   "])).to_string() }
fn is_ws_char(c: char) -> bool { c == ' ' || c == '\n' || c == '\t' }
const INLINE_PARENTS: &[&str] = &["p", "div", "li", "blockquote", "em", "strong", "code", "s", "del", "i", "span", "a", "h1", "h2", "h3", "h4", "h5", "h6", "dd", "dt", "section", "article", "center", "u", "body"];
const BLOCK_PARENTS: &[&str] = &["div", "blockquote", "li", "ul", "ol", "dl", "dd", "body"];
fn is_inline(n: &N) -> bool { match n { N::T(_) => true, N::Raw(_) => true, N::E(nm, _, _) => ["em", "strong", "code", "s", "del", "i", "span", "a", "img", "br", "u"].contains(&nm.as_str()) } }
// elements the library itself lays out as blocks (sectioning elements are plain containers to it)
fn is_block_el(n: &N) -> bool { match n { N::E(nm, _, _) => ["p", "div", "blockquote", "ul", "ol", "dl", "h1", "h2", "h3", "h4", "h5", "h6", "li", "dt", "dd"].contains(&nm.as_str()), _ => false } }
fn has_word(n: &N) -> bool { match n { N::T(s) => s.chars().any(|c| !is_ws_char(c)), N::Raw(_) => false, N::E(nm, _, k) => nm != "img" && k.iter().any(has_word) } }
/// Rewrite the children list of element `pname`.
fn rewrite_kids(r: &mut Rng, pname: &str, kids: &[N], rate: u64) -> Vec<N> {
    let mut out: Vec<N> = Vec::new();
    for k in kids {
        match k {
            N::T(s) => {
                // (a) substitute whitespace runs, (b) insert comments next to whitespace
                let chars: Vec<char> = s.chars().collect();
                let mut cur = String::new();
                let mut idx = 0;
                while idx < chars.len() {
                    if is_ws_char(chars[idx]) {
                        let mut j = idx; while j < chars.len() && is_ws_char(chars[j]) { j += 1; }
                        let run: String = if r.chance(1, rate) { ws_run(r) } else { chars[idx..j].iter().collect() };
                        if r.chance(1, rate * 2) {
                            // comment before, after or inside the run
                            match r.below(3) {
                                0 => { if !cur.is_empty() { out.push(N::T(std::mem::take(&mut cur))); } out.push(N::Raw("<!--c-->".into())); cur.push_str(&run); }
                                1 => { cur.push_str(&run); out.push(N::T(std::mem::take(&mut cur))); out.push(N::Raw("<!--c-->".into())); }
                                _ => { cur.push(' '); out.push(N::T(std::mem::take(&mut cur))); out.push(N::Raw("<!--c-->".into())); cur.push_str(&run); }
                            }
                        } else { cur.push_str(&run); }
                        idx = j;
                    } else { cur.push(chars[idx]); idx += 1; }
                }
                if !cur.is_empty() { out.push(N::T(cur)); }
            }
            N::Raw(x) => out.push(N::Raw(x.clone())),
            N::E(nm, at, ks) => {
                let nk = if nm == "pre" { ks.clone() } else { rewrite_kids(r, nm, ks, rate) };
                out.push(N::E(nm.clone(), at.clone(), nk));
            }
        }
    }
    // (c) wrap a run of inline children that contains a word in a neutral span
    if INLINE_PARENTS.contains(&pname) && r.chance(1, rate) && !out.is_empty() {
        let i = r.below(out.len() as u64) as usize;
        let mut j = i;
        while j < out.len() && is_inline(&out[j]) && j - i < 3 { j += 1; }
        // (inside an inline element any run may be wrapped, also one of white space only)
        let inline_parent = ["em", "strong", "code", "s", "del", "i", "span", "a", "u"].contains(&pname);
        if j > i && (inline_parent || out[i..j].iter().any(has_word)) {
            let chunk: Vec<N> = out.drain(i..j).collect();
            out.insert(i, N::el("span", chunk));
        }
    }
    // (d) indentation / newlines between block-level siblings
    // (only inside elements that have visible content of their own: an element holding nothing but
    //  white space is a different document to the library than an empty one, see known finding ws-only-block)
    if BLOCK_PARENTS.contains(&pname) && out.iter().any(has_word) {
        let mut o2 = Vec::new();
        for (k, n) in out.iter().enumerate() {
            let prev_block = k > 0 && is_block_el(&out[k - 1]);
            if is_block_el(n) && (k == 0 || prev_block) && r.chance(1, rate) { o2.push(N::T(format!("\n{}", if r.chance(1, 3) { "\t".repeat(1 + r.below(2) as usize) } else { " ".repeat(r.below(5) as usize) }))); }
            o2.push(n.clone());
        }
        if out.last().map(is_block_el).unwrap_or(false) && r.chance(1, rate) { o2.push(N::T((*r.pick(&["\n", "\n\t", "\n  "])).to_string())); }
        out = o2;
    }
    out
}

/// C13: table-free, pre-free documents; the document and a source-level rewrite of it.
fn c13(r: &mut Rng, i: u64, p: &HashMap<String, String>) -> Vec<Value> {
    let mut f = Feat::notables();
    f.pre = false;
    f.ids = r.chance(1, 5);
    let mut g = G::new(r, f);
    let body = g.flow(0);
    let rate = r.range(1, 4);
    let body2 = rewrite_kids(r, "body", &body, rate);
    let (h1, h2) = (doc_html(&body), doc_html(&body2));
    if h1 == h2 { return vec![]; }
    let deco = *r.pick(&["plain", "rich", "plain", "plain_nd"]);
    let ops = if r.chance(1, 3) { opts_c02(r).into_iter().filter(|o| o[0] != "raw").collect() } else { vec![] };
    let route = if deco == "rich" { "lines" } else { "string" };
    let w = if r.chance(2, 3) { r.range(1, 30) } else { r.range(1, wmax(p, 100)) };
    vec![json!({"id": id("c13", i), "runs": [run(&h1, w, cfg(deco, ops.clone()), route), run(&h2, w, cfg(deco, ops), route)]})]
}

/// C15: base configuration vs base + one option.
fn c15(r: &mut Rng, i: u64, p: &HashMap<String, String>) -> Vec<Value> {
    let opt = *r.pick(&["max_wrap", "pad", "strike", "noborders", "raw", "footnotes", "nolinkwrap", "min_wrap", "rawoff", "perm"]);
    let mut f = if r.chance(1, 2) { Feat::all() } else { Feat::notables() };
    f.zero_only = false;     // (words without any width: see DESIGN.md section 9, outside this check's quantifier)
    // half of the documents have nothing the option applies to
    if r.chance(1, 2) {
        match opt { "strike" => f.strike = false, "footnotes" | "nolinkwrap" => f.links = false,
                    "noborders" | "raw" | "rawoff" => { f.tables = false; }
                    "min_wrap" => { f.tables = false; f.lists = false; f.quotes = false; f.heads = false; f.dl = false; }
                    _ => {} }
    }
    f.ids = r.chance(1, 3);        // fragment markers must not disturb any option
    let mut g = G::new(r, f);
    let body = g.flow(0);
    let html = doc_html(&body);
    let deco = *r.pick(&["plain", "rich", "trivial", "plain_nd"]);
    let mut base: Vec<Value> = opts_c02(r).into_iter().filter(|o| {
        let n = o[0].as_str().unwrap_or("");
        !(n == opt || (opt == "noborders" && n == "raw") || (opt == "raw" && n == "noborders") || (opt == "rawoff" && n == "raw"))
    }).collect();
    let w = if opt == "max_wrap" && r.chance(1, 4) { r.range(1, 6) } else if r.chance(2, 3) { r.range(1, 30) } else { r.range(1, wmax(p, 100)) };
    let mut arg = json!(0);
    let mut with = base.clone();
    match opt {
        "max_wrap" => { // (with overflow allowed blocks can be wider than the page: only a limit above every block width is no limit)
                        let ovf = r.chance(1, 4);
                        let m = if ovf { 1000 } else if r.chance(1, 3) { w + r.below(20) } else { r.range(1, 40) }; arg = json!(m); with.push(json!(["max_wrap", m]));
                        if ovf { base.push(json!(["overflow"])); with.push(json!(["overflow"])); } }
        "pad" => with.push(json!(["pad"])),
        "strike" => { base.push(json!(["strike", true])); with.push(json!(["strike", false])); }
        "noborders" => with.push(json!(["noborders"])),
        "raw" => with.push(json!(["raw", true])),
        // raw_mode(false) is no option at all: in particular it must not bring back borders that were turned off before
        "rawoff" => { if !base.iter().any(|o| o[0] == "noborders") { base.insert(0, json!(["noborders"])); with.insert(0, json!(["noborders"])); } with.push(json!(["raw", false])); }
        "footnotes" => { base.push(json!(["footnotes", true])); with.push(json!(["footnotes", false])); }
        "nolinkwrap" => with.push(json!(["nolinkwrap"])),
        // the same builder calls in another order (each option at most once): nothing may change
        "perm" => { for x in [json!(["nolinkwrap"]), json!(["min_wrap", r.range(1, 6)]), json!(["footnotes", r.chance(1, 2)])] { if !base.iter().any(|o| o[0] == x[0]) && r.chance(1, 2) { base.push(x); } }
                    with = base.clone(); for k in (1..with.len()).rev() { let j = r.below(k as u64 + 1) as usize; with.swap(k, j); } }
        _ => { let k = r.range(0, 10); arg = json!(k); with.push(json!(["min_wrap", k])); }
    }
    vec![json!({"id": id("c15", i), "meta": {"opt": opt, "arg": arg},
                "runs": [run(&html, w, cfg(deco, base), "string"), run(&html, w, cfg(deco, with), "string")]})]
}

fn strip_ids(n: &N) -> N {
    match n {
        N::E(nm, at, ks) => N::E(nm.clone(), at.iter().filter(|(a, _)| a != "id" && a != "name").cloned().collect(), ks.iter().map(strip_ids).collect()),
        other => other.clone(),
    }
}
/// C14: unique ids / anchor names on random elements; lines route, and string route with / without ids.
fn c14(r: &mut Rng, i: u64, p: &HashMap<String, String>) -> Vec<Value> {
    let mut f = if r.chance(1, 4) { Feat::all() } else { Feat::notables() };
    f.zero_only = false;     // (words without any width: see DESIGN.md section 9, outside this check's quantifier)
    f.ids = true;
    f.sup = r.chance(1, 4);
    f.stray = r.chance(1, 3);
    let mut g = G::new(r, f);
    let body = g.flow(0);
    if g.ids.is_empty() { return vec![]; }
    let html = doc_html(&body);
    let stripped: Vec<N> = body.iter().map(strip_ids).collect();
    let html0 = doc_html(&stripped);
    let w = if r.chance(1, 2) { r.range(1, 12) } else { r.range(1, wmax(p, 100)) };
    let sdeco = *r.pick(&["plain", "plain_nd", "trivial"]);
    vec![json!({"id": id("c14", i), "runs": [
        run(&html, w, cfg("rich", vec![]), "lines"),
        run(&html, w, cfg(sdeco, vec![]), "string"),
        run(&html0, w, cfg(sdeco, vec![]), "string")]})]
}

/// C09: random nestings of annotating elements inside paragraphs, lists, quotes, headings, table
/// cells; rich lines route + rich string route.
fn c09(r: &mut Rng, i: u64, p: &HashMap<String, String>) -> Vec<Value> {
    let mut f = if r.chance(1, 3) { Feat::all() } else { Feat::notables() };
    f.zero_only = false;     // (words without any width: see DESIGN.md section 9, outside this check's quantifier)
    f.ids = r.chance(1, 6);
    f.sup = r.chance(1, 3);
    f.linky = r.chance(1, 3);
    f.stray = r.chance(1, 3);
    let mut g = G::new(r, f);
    let body = g.flow(0);
    let html = doc_html(&body);
    let w = if r.chance(1, 2) { r.range(1, 25) } else { r.range(1, wmax(p, 100)) };
    let mut ops = vec![];
    if r.chance(1, 5) { ops.push(json!(["pad"])); }
    if r.chance(1, 6) { ops.push(json!(["max_wrap", r.range(3, 30)])); }
    if r.chance(1, 8) { ops.push(json!(["footnotes", true])); }
    vec![json!({"id": id("c09", i), "runs": [run(&html, w, cfg("rich", ops.clone()), "lines"), run(&html, w, cfg("rich", ops), "string")]})]
}

/// C08: 0..40 links with unique texts anywhere in the block/table grammar; footnotes on and off.
fn c08(r: &mut Rng, i: u64, p: &HashMap<String, String>) -> Vec<Value> {
    let mut f = if r.chance(1, 3) { Feat::all() } else { Feat::notables() };
    f.linky = true;
    f.ids = r.chance(1, 3);       // (name / id on links, before or after href)
    f.odd_href = r.chance(1, 2);
    f.sup = r.chance(1, 4);
    let mut g = G::new(r, f);
    let mut body = g.flow(0);
    // links nest through a table cell (`<a>` inside `<a>` is re-parented by the parser, `<a><table><td><a>` is not):
    // the outer link starts first, so it is the earlier one in document order, and ends after the inner ones
    if g.r.chance(1, 8) {
        let lk = |t: String, h: String| N::ela("a", vec![("href", h)], vec![N::T(t)]);
        let k = g.r.below(1000);
        let ncell = g.r.range(1, 3);
        let cells: Vec<N> = (0..ncell).map(|c| N::el("td", if g.r.chance(1, 4) { vec![N::T(format!("nc{}x{}", k, c))] }
                                                          else { vec![N::T(format!("ni{}y{} ", k, c)), lk(format!("nl{}z{}", k, c), format!("http://in.example/{}/{}", k, c))] })).collect();
        let mut kids = vec![];
        if g.r.chance(2, 3) { kids.push(N::T(format!("npre{} ", k))); }
        kids.push(N::el("table", vec![N::el("tr", cells)]));
        if g.r.chance(2, 3) { kids.push(N::T(format!(" npost{}", k))); }
        let outer = N::ela("a", vec![("href", format!("http://out.example/{}", k))], kids);
        let at = g.r.below(body.len() as u64 + 1) as usize;
        body.insert(at, outer);
    }
    let html = doc_html(&body);
    let w = r.range(10, wmax(p, 120));
    let deco = *r.pick(&["plain", "trivial", "rich", "plain_nd"]);
    let mut base = vec![];
    if r.chance(1, 6) { base.push(json!(["nolinkwrap"])); }
    if r.chance(1, 6) { base.push(json!(["raw", true])); }
    if r.chance(1, 6) { base.push(json!(["pad"])); }
    let mut on = base.clone(); on.push(json!(["footnotes", true]));
    let mut off = base; off.push(json!(["footnotes", false]));
    // (sometimes through the staged calls on a cloned tree: the clone has to keep what links hold)
    let route = if r.chance(1, 4) { "staged_clone_string" } else { "string" };
    vec![json!({"id": id("c08", i), "runs": [run(&html, w, cfg(deco, on), route), run(&html, w, cfg(deco, off), route)]})]
}

/// C07: one block B (ul / ol(start) / blockquote / h1..h6 / dd) whose items hold random flow content
/// (nested blocks included); auxiliary runs render each item's content stand-alone at w - prefix.
fn c07(r: &mut Rng, i: u64, p: &HashMap<String, String>) -> Vec<Value> {
    let mut f = Feat::notables();
    f.links = false;        // footnote numbering is global, not compositional
    f.pre = r.chance(1, 2);
    let deco = *r.pick(&["plain", "rich", "plain_nd"]);
    let kind = *r.pick(&["ul", "ol", "ol", "blockquote", "h", "dd", "dt"]);
    let mut g = G::new(r, f);
    let (body, items, pw, meta): (Vec<N>, Vec<Vec<N>>, u64, Value) = match kind {
        "ul" => { let m = g.r.range(1, 6); let its: Vec<Vec<N>> = (0..m).map(|_| g.flow(1)).collect();
                  (vec![N::el("ul", its.iter().map(|c| N::el("li", c.clone())).collect())], its, 2, json!({"kind": "ul"})) }
        "ol" => { let m = g.r.range(1, 15);
                  let starts: [i64; 14] = [1, -100, -1, 0, 9, 98, 999, 5, -12, 95, 100, -9, 1, 1];
                  let st = *g.r.pick(&starts);
                  let its: Vec<Vec<N>> = (0..m).map(|_| if g.r.chance(1, 5) { vec![] } else { g.flow(2) }).collect();
                  let lis: Vec<N> = its.iter().map(|c| N::el("li", c.clone())).collect();
                  let has_start = st != 1 || g.r.chance(1, 2);
                  // (other attributes before and after `start`)
                  let ol = if has_start { let mut at: Vec<(&str, String)> = vec![];
                                          if g.r.chance(1, 3) { at.push((*g.r.pick(&["class", "type", "title"]), "a".to_string())); }
                                          at.push(("start", format!("{}", st)));
                                          if g.r.chance(1, 5) { at.push(("reversed", "".to_string())); }
                                          N::ela("ol", at, lis) } else { N::el("ol", lis) };
                  let last = st + m as i64 - 1;
                  let pw = format!("{}. ", st).len().max(format!("{}. ", last).len()) as u64;
                  (vec![ol], its, pw, json!({"kind": "ol", "start": st})) }
        "blockquote" => { let c = g.flow(1); (vec![N::el("blockquote", c.clone())], vec![c], 2, json!({"kind": "blockquote"})) }
        "dd" => { let c = g.flow(1); (vec![N::el("dl", vec![N::el("dd", c.clone())])], vec![c], 2, json!({"kind": "dd"})) }
        // definition terms: no prefix; each renders like its content inside <em> on lines of its own
        "dt" => { let m = g.r.range(1, 3); let its: Vec<Vec<N>> = (0..m).map(|_| { let mut c = g.inlines(1); if c.is_empty() { c.push(N::T(g.token())); } c }).collect();
                  (vec![N::el("dl", its.iter().map(|c| N::el("dt", c.clone())).collect())], its.iter().map(|c| vec![N::el("em", c.clone())]).collect(), 0, json!({"kind": "dt"})) }
        _ => { let l = g.r.range(1, 6); let c = g.inlines(1); (vec![N::el(&format!("h{}", l), c.clone())], vec![c], l + 1, json!({"kind": format!("h{}", l)})) }
    };
    if body.is_empty() { return vec![]; }
    let mut body = body;
    // ids on the block itself and on its items (fragment markers must not disturb prefixes or numbering)
    if r.chance(1, 3) {
        let target: &mut N = if kind == "dd" { if let N::E(_, _, ks) = &mut body[0] { &mut ks[0] } else { unreachable!() } } else { &mut body[0] };
        target.add_attr("id", "_blk".into());
        if let N::E(_, _, ks) = target { for (k, li) in ks.iter_mut().enumerate() { if matches!(li, N::E(n, _, _) if n == "li") && r.chance(1, 3) { li.add_attr("id", format!("_it{}", k)); } } }
    }
    let w = r.range(pw + 2, wmax(p, 100));
    let mut runs = vec![run(&doc_html(&body), w, cfg(deco, vec![]), "string")];
    for it in &items { runs.push(run(&doc_html(it), w - pw, cfg(deco, vec![]), "string")); }
    vec![json!({"id": id("c07", i), "meta": meta, "runs": runs})]
}

/// Tilings of `ncols` columns into colspans for one row.
fn tiling(r: &mut Rng, ncols: usize, spans: bool) -> Vec<usize> {
    let mut v = vec![]; let mut c = 0;
    while c < ncols { let s = if spans && r.chance(1, 3) { 1 + r.below((ncols - c) as u64) as usize } else { 1 }; v.push(s); c += s; }
    v
}
const CELLCH: &[char] = &['a','b','c','d','e','f','g','h','i','j','k','l','m','n','o','p','q','r','s','t','u','v','w','x','y','z','α','β','γ','δ','ε','ζ','η','θ','ι','κ','λ','μ'];
/// A regular table: every row tiles the same number of columns.  Returns (table node, cell records).
/// `uniq`: fill cells with copies of a per-cell unique character (C06); else ordinary tokens (C05).
fn regular_table(g: &mut G, nrows: usize, ncols: usize, spans: bool, nest: bool, uniq: bool, next: &mut usize, cells: &mut Vec<Value>, top: bool, sparse: bool) -> N {
    let mut rows = vec![];
    for ri in 0..nrows {
        let mut tds = vec![]; let mut c0 = 0;
        for s in tiling(g.r, ncols, spans) {
            let class = if sparse && g.r.chance(2, 3) { 0 } else { g.r.below(10) };
            let mut kids: Vec<N> = vec![];
            let mut count = 0usize;
            let ch = CELLCH[*next % CELLCH.len()];
            if nest && class == 9 && top {
                let (nr, nc) = (1 + g.r.below(2) as usize, 1 + g.r.below(3) as usize);
                kids.push(regular_table(g, nr, nc, spans, false, uniq, next, cells, false, false));
            } else if class == 1 && g.r.chance(1, 2) {
                // a cell that holds white space only (as pretty-printed markup has): as empty as an empty one
                kids.push(if g.r.chance(1, 4) { N::el("span", vec![N::T(" ".into())]) } else { N::T((*g.r.pick(&[" ", "\n", "\n    ", " \t "])).to_string()) });
            } else if class >= 2 {
                let tiny = s > 1 && g.r.chance(1, 3);      // text shorter than the span
                let nwords = if tiny { 1 } else { match class { 2 | 3 | 4 => 1, 5 | 6 => 1 + g.r.below(3), _ => 2 + g.r.below(6) } };
                let mut t = String::new();
                for wi in 0..nwords {
                    if wi > 0 { t.push(' '); }
                    if uniq { let len = if tiny { 1 } else { 1 + g.r.below(if class == 8 { 14 } else { 5 }) }; for _ in 0..len { t.push(ch); count += 1; } }
                    else if tiny { t.push((b'a' + g.r.below(26) as u8) as char); }
                    else { t.push_str(&g.token()); }
                }
                if class == 7 { kids.push(N::T(t.clone())); kids.push(N::el("br", vec![])); let extra: String = if uniq { count += 2; format!("{}{}", ch, ch) } else { g.token() }; kids.push(N::T(extra)); }
                else if class == 6 && !uniq { kids.push(N::T(format!("{}一語", t))); }
                // one unbroken word of wide characters with inline markup in the middle of it
                else if class == 5 && !uniq && g.r.chance(1, 2) { kids.push(N::T(format!("{}東京都千代田区", t))); kids.push(N::el(*g.r.pick(&["em", "strong", "code"]), vec![N::T("abc".into())])); if g.r.chance(1, 2) { kids.push(N::T("語".into())); } }
                else { kids.push(N::T(t)); }
            }
            if uniq && top { cells.push(json!({"r": ri + 1, "c0": c0 + 1, "c1": c0 + s, "code": ch as u32, "n": count})); *next += 1; }
            let mut td = N::el(if g.r.chance(1, 6) { "th" } else { "td" }, kids);
            if s > 1 && g.r.chance(1, 3) { td.add_attr(*g.r.pick(&["align", "class", "scope"]), "c".into()); }   // colspan need not come first
            if s > 1 { td.add_attr("colspan", format!("{}", s)); }
            tds.push(td); c0 += s;
        }
        rows.push(N::el("tr", tds));
    }
    if g.r.chance(1, 3) && rows.len() >= 2 {
        let k = 1 + g.r.below(rows.len() as u64 - 1) as usize;
        let tail = rows.split_off(k);
        N::el("table", vec![N::el("thead", rows), N::el("tbody", tail)])
    } else { N::el("table", rows) }
}
/// A table under width pressure: one column holds a long text, the other columns are covered in one row by
/// spanning cells with short texts (1 .. 2 x span characters, so also shorter than, equal to and a multiple of the
/// span) and are (almost) empty in the other rows.  Every non-empty cell is filled with its own character.
fn pressure_table(r: &mut Rng, cells: &mut Vec<Value>) -> N {
    let ncols = r.range(3, 7) as usize; let nrows = r.range(2, 3) as usize;
    let long_col = r.below(ncols as u64) as usize; let row_a = r.below(nrows as u64) as usize;
    let mut next = 0usize;
    let mut rows = vec![];
    for ri in 0..nrows {
        let mut tds = vec![]; let mut c = 0usize;
        while c < ncols {
            let ch = CELLCH[next % CELLCH.len()];
            let (span, text, count) = if c == long_col {
                let nw = if ri == row_a || r.chance(1, 3) { r.range(4, 12) } else { r.range(0, 1) };
                let mut t = String::new(); let mut n = 0usize;
                for wi in 0..nw { if wi > 0 { t.push(' '); } for _ in 0..r.range(3, 9) { t.push(ch); n += 1; } }
                (1usize, t, n)
            } else if ri == row_a {
                let room = if c < long_col { long_col - c } else { ncols - c };
                let span = (r.range(1, 4) as usize).min(room).max(1);
                let len = if r.chance(1, 5) { 0 } else { r.range(1, 2 * span as u64) as usize };
                (span, std::iter::repeat(ch).take(len).collect::<String>(), len)
            } else {
                let len = if r.chance(6, 7) { 0 } else { r.range(1, 2) as usize };
                (1usize, std::iter::repeat(ch).take(len).collect::<String>(), len)
            };
            cells.push(json!({"r": ri + 1, "c0": c + 1, "c1": c + span, "code": ch as u32, "n": count})); next += 1;
            let mut td = N::el("td", if text.is_empty() { vec![] } else { vec![N::T(text)] });
            if span > 1 { td.add_attr("colspan", format!("{}", span)); }
            tds.push(td); c += span;
        }
        rows.push(N::el("tr", tds));
    }
    N::el("table", rows)
}

/// C05: one regular table (1..5 x 1..6, tiling colspans, cells empty/short/long/multi-line/wide, nested
/// regular tables, thead/tbody), plain decorator with borders, widths 1..100.
fn c05(r: &mut Rng, i: u64, p: &HashMap<String, String>) -> Vec<Value> {
    let sparse = r.chance(1, 4);
    let (nrows, ncols) = (1 + r.below(5) as usize, 1 + r.below(if sparse { 7 } else { 6 }) as usize);
    let spans = r.chance(1, 2); let nest = r.chance(1, 3);
    let mut g = G::new(r, Feat::all());
    let mut cells = vec![]; let mut next = 0;
    let t = regular_table(&mut g, nrows, ncols, spans, nest, false, &mut next, &mut cells, true, sparse);
    let (t, w) = if r.chance(1, 5) { cells.clear(); (pressure_table(r, &mut cells), r.range(6, 60)) }
                 else { (t, if r.chance(1, 2) { r.range(1, 30) } else { r.range(1, wmax(p, 100)) }) };
    // (layout options that must not disturb the box: a wrap limit above, at or below the column widths, padding)
    let mut ops = vec![];
    if r.chance(1, 6) { ops.push(json!(["max_wrap", r.range(1, 40)])); }
    if r.chance(1, 8) { ops.push(json!(["pad"])); }
    if r.chance(1, 10) { ops.push(json!(["min_wrap", r.range(0, 6)])); }
    // (sometimes through the staged calls on a clone of the render tree: a clone keeps every cell in its place)
    let route = if r.chance(1, 5) { "staged_clone_string" } else { "string" };
    vec![json!({"id": id("c05", i), "runs": [run(&doc_html(&[t]), w, cfg("plain", ops), route)]})]
}
/// C06: as C05 without nesting, every non-empty cell filled with copies of its own unique character.
fn c06(r: &mut Rng, i: u64, p: &HashMap<String, String>) -> Vec<Value> {
    let sparse = r.chance(1, 4);
    let (nrows, ncols) = (1 + r.below(5) as usize, 1 + r.below(if sparse { 7 } else { 6 }) as usize);
    let spans = r.chance(1, 2);
    let mut g = G::new(r, Feat::all());
    let mut cells = vec![]; let mut next = 0;
    let t = regular_table(&mut g, nrows, ncols, spans, false, true, &mut next, &mut cells, true, sparse);
    let (t, w) = if r.chance(1, 5) { cells.clear(); (pressure_table(r, &mut cells), r.range(6, 60)) }
                 else { (t, if r.chance(1, 2) { r.range(1, 30) } else { r.range(1, wmax(p, 100)) }) };
    let mut ops = vec![];
    if r.chance(1, 6) { ops.push(json!(["max_wrap", r.range(1, 40)])); }
    if r.chance(1, 8) { ops.push(json!(["pad"])); }
    if r.chance(1, 10) { ops.push(json!(["min_wrap", r.range(0, 6)])); }
    // (sometimes through the staged calls on a clone of the render tree: a clone keeps every cell in its place)
    let route = if r.chance(1, 5) { "staged_clone_string" } else { "string" };
    vec![json!({"id": id("c06", i), "meta": {"cells": cells}, "runs": [run(&doc_html(&[t]), w, cfg("plain", ops), route)]})]
}

/// C10: 1-2 documents, one configuration, a random valid history of one-shot and staged calls over a
/// few widths (repeated, out of order, including widths that fail).
fn c10(r: &mut Rng, i: u64, p: &HashMap<String, String>) -> Vec<Value> {
    let ndocs = 1 + r.below(2) as usize;
    let mut docs = vec![];
    for _ in 0..ndocs {
        let mut f = if r.chance(1, 2) { Feat::all() } else { Feat::notables() };
        f.ids = r.chance(1, 4);
        f.sup = r.chance(1, 2);
        f.stray = r.chance(1, 3);
        f.odd_href = r.chance(1, 3);
        let mut g = G::new(r, f);
        docs.push(doc_html(&g.flow(0)));
    }
    let deco = *r.pick(&["plain", "rich", "trivial", "plain_nd"]);
    let mut ops = opts_c02(r);
    if r.chance(1, 6) { ops.push(json!(["overflow"])); }
    // sometimes the documents carry a style element whose rules show (hidden elements, preserved white space,
    // colours) and the configuration reads it: every route, and every conversion of one parsed document, must see it
    if r.chance(1, 3) {
        for d in docs.iter_mut() {
            let n = r.range(1, 3);
            let rules: Vec<String> = (0..n).map(|_| format!("{} {{ {} }}", *r.pick(&["em", "strong", "code", "li", "blockquote", "h2", "p", "a", "td", "dd"]),
                                                           *r.pick(&["display: none", "display: none", "white-space: pre", "color: #ff0000", "background-color: #00ff00"]))).collect();
            *d = d.replacen("<body>", &format!("<body><style>{}</style>", rules.join(" ")), 1);
        }
        ops.push(json!(["doccss"]));
    }
    let nw = 2 + r.below(3);
    let mut widths: Vec<u64> = (0..nw).map(|_| if r.chance(1, 3) { r.range(1, 6) } else { r.range(1, wmax(p, 80)) }).collect();
    if r.chance(1, 4) { widths.push(0); }
    let routes: Vec<&str> = if deco == "rich" { vec!["string", "lines", "coloured"] } else { vec!["string", "lines"] };
    let nops = r.range(4, p.get("ops").and_then(|s| s.parse().ok()).unwrap_or(14));
    let mut hist: Vec<Value> = vec![];
    let mut doms: Vec<usize> = vec![];           // dom handle -> doc
    let mut trees: Vec<(usize, bool)> = vec![];  // tree handle -> (doc, live)
    // every document gets a one-shot string rendering at its first width, so that there is a reference
    for d in 0..ndocs { hist.push(json!({"op": "oneshot", "doc": d + 1, "w": widths[0], "route": "string"})); }
    while (hist.len() as u64) < nops {
        let live: Vec<usize> = trees.iter().enumerate().filter(|(_, t)| t.1).map(|(k, _)| k).collect();
        match r.below(10) {
            0 | 1 => { let d = r.below(ndocs as u64) as usize; hist.push(json!({"op": "oneshot", "doc": d + 1, "w": *r.pick(&widths), "route": *r.pick(&routes)})); }
            2 => { let d = r.below(ndocs as u64) as usize; doms.push(d); hist.push(json!({"op": "parse", "doc": d + 1})); }
            3 | 4 if !doms.is_empty() => { let k = r.below(doms.len() as u64) as usize; trees.push((doms[k], true)); hist.push(json!({"op": "tree", "dom": k + 1})); }
            5 | 6 if !live.is_empty() => { let t = *r.pick(&live); trees.push((trees[t].0, true)); hist.push(json!({"op": "clone", "tree": t + 1})); }
            7 | 8 | 9 if !live.is_empty() => { let t = *r.pick(&live); trees[t].1 = false; hist.push(json!({"op": "render", "tree": t + 1, "w": *r.pick(&widths), "route": *r.pick(&routes)})); }
            _ => {}
        }
    }
    vec![json!({"id": id("c10", i), "docs": docs, "cfg": cfg(deco, ops), "hist": hist})]
}

fn custom_deco(r: &mut Rng) -> Value {
    // affix characters and prefix characters come from disjoint pools; each pool has ASCII, 2-byte
    // width-1, 3-byte width-2 and empty members
    let aff_s = ["«", "⟦", "‹", "〖", "{", "", "◆"]; let aff_e = ["»", "⟧", "›", "〗", "}", "", "◇"];
    let mut d = serde_json::Map::new();
    for k in ["link", "em", "strong", "strike", "code", "img"] {
        let j = r.below(aff_s.len() as u64) as usize;
        let (mut a, mut b) = (aff_s[j].to_string(), aff_e[j].to_string());
        if r.chance(1, 6) { a.push_str(aff_s[r.below(5) as usize]); }
        if r.chance(1, 8) { b = String::new(); }
        d.insert(format!("{}_s", k), json!(a)); d.insert(format!("{}_e", k), json!(b));
    }
    d.insert("hdr".into(), json!(*r.pick(&["#", "§", "＃", "=", ""])));
    d.insert("hdr_tail".into(), json!(*r.pick(&[" ", " ", "", "│"])));
    d.insert("quote".into(), json!(*r.pick(&["> ", "│ ", "┃", "） ", "", "| "])));
    d.insert("ul".into(), json!(*r.pick(&["* ", "• ", "・", "- ", "", "•  "])));
    d.insert("ol_suffix".into(), json!(*r.pick(&[". ", "） ", ") ", "· ", "", "．"])));
    json!({"custom": Value::Object(d)})
}
/// C16: parameterised decorators.  Three shapes: a C07-style block with stand-alone item renderings,
/// a general block-grammar document (affix stream, width bound, no panic), and a trivial-decorator run.
fn c16(r: &mut Rng, i: u64, p: &HashMap<String, String>) -> Vec<Value> {
    let deco = custom_deco(r);
    // (layout options too: the prefixes of a parameterised decorator meet wrap limits and padding)
    let mut ops: Vec<Value> = vec![];
    if r.chance(1, 4) { ops.push(json!(["max_wrap", r.range(4, 40)])); }
    if r.chance(1, 8) { ops.push(json!(["pad"])); }
    let c = json!({"deco": deco, "ops": ops});
    match r.below(3) {
        0 => {
            // reuse the C07 shapes with the custom decorator
            let mut v = c07(r, i, p);
            // sometimes a decorator that styles ordered markers by nesting level (suffixes of one width): the block is
            // rendered at level 0, its items stand alone at level 1 - what make_subblock_decorator gives their blocks
            let mut c = c;
            let mut c_items = c.clone();
            if r.chance(1, 3) {
                let base = deco["custom"]["ol_suffix"].as_str().unwrap_or(". ").to_string();
                let alt: Vec<String> = match base.as_str() { ". " => vec![". ", ") ", "] "], "） " => vec!["） ", "］ "], ") " => vec![") ", ". ", ": "], "· " => vec!["· ", ": "], "．" => vec!["．", "："], _ => vec![] }.into_iter().map(|s| s.to_string()).collect();
                if !alt.is_empty() {
                    c["deco"]["custom"]["ol_suffixes"] = json!(alt); c["deco"]["custom"]["level"] = json!(0);
                    c_items = c.clone(); c_items["deco"]["custom"]["level"] = json!(1);
                }
            }
            for case in v.iter_mut() {
                case["id"] = json!(id("c16", i));
                if c["deco"]["custom"].get("ol_suffixes").is_some() { case["meta"]["nomodel"] = json!(true); }
                if let Some(runs) = case["runs"].as_array_mut() { for (k, run) in runs.iter_mut().enumerate() { run["cfg"] = if k == 0 { c.clone() } else { c_items.clone() }; } }
            }
            // prefix widths differ from the built-in decorators: recompute the widths of the auxiliary runs in TLA+ terms is
            // not possible here, so the stand-alone widths are fixed up by the executor-independent rule below
            v.into_iter().filter_map(|mut case| {
                let kind = case["meta"]["kind"].as_str().unwrap_or("").to_string();
                let cu = &deco["custom"];
                let wd = |s: &str| s.chars().map(|ch| unicode_width::UnicodeWidthChar::width(ch).unwrap_or(0) as u64).sum::<u64>();
                let g = |k: &str| cu[k].as_str().unwrap_or("").to_string();
                let n_items = case["runs"].as_array().map(|a| a.len() as i64 - 1).unwrap_or(0);
                let pw = match kind.as_str() {
                    "ul" => wd(&g("ul")), "blockquote" => wd(&g("quote")), "dd" => 2,
                    "ol" => { let st = case["meta"]["start"].as_i64().unwrap_or(1); let last = st + n_items.max(1) - 1;
                              (format!("{}", st).len().max(format!("{}", last).len()) as u64) + wd(&g("ol_suffix")) }
                    k if k.starts_with('h') => { let l: u64 = k[1..].parse().unwrap_or(1); wd(&g("hdr")) * l + wd(&g("hdr_tail")) }
                    _ => 0 };
                let w = case["runs"][0]["w"].as_u64().unwrap_or(20).max(pw + 2);
                if let Some(runs) = case["runs"].as_array_mut() {
                    for (k, run) in runs.iter_mut().enumerate() { run["w"] = json!(if k == 0 { w } else { w - pw }); }
                }
                Some(case)
            }).collect()
        }
        1 => {
            let mut f = if r.chance(1, 4) { Feat::all() } else { Feat::notables() }; f.zero_only = false;
            f.sup = false;
            let mut g = G::new(r, f);
            let body = g.flow(0);
            let w = r.range(4, wmax(p, 80));
            vec![json!({"id": id("c16", i), "meta": {"affix": 1}, "runs": [run(&doc_html(&body), w, c, "string")]})]
        }
        _ => {
            let mut f = if r.chance(1, 3) { Feat::all() } else { Feat::notables() }; f.zero_only = false;
            let mut g = G::new(r, f);
            let body = g.flow(0);
            let w = r.range(4, wmax(p, 80));
            let mut ops = vec![];
            if r.chance(1, 4) { ops.push(json!(["raw", true])); }
            if r.chance(1, 4) { ops.push(json!(["noborders"])); }
            vec![json!({"id": id("c16", i), "runs": [run(&doc_html(&body), w, cfg("trivial", ops), "string")]})]
        }
    }
}

fn css_snippet(r: &mut Rng) -> String {
    let sels = ["p", ".x", "#i", "div p", "ul > li", "li:nth-child(2n+1)", "*", "em.x", "td", "table", "h1, h2", "li:nth-child(odd)", "a", "span", "p:nth-child(-n+3)"];
    let decls = ["color: red", "color: #0a0", "background-color: rgb(1,2,3)", "display: none", "white-space: pre", "white-space: pre-wrap", "color: blue !important", "height: 0; overflow: hidden", "foo: bar", "color:", "display: block"];
    let mut s = String::new();
    for _ in 0..r.range(1, 4) {
        match r.below(8) {
            0 => s.push_str("@media print { p { color: red } } "),
            1 => s.push_str("/* c */ "),
            2 => s.push_str(&format!("{} {{ {} ", r.pick(&sels), r.pick(&decls))), // unterminated
            _ => s.push_str(&format!("{} {{ {}; {} }} ", r.pick(&sels), r.pick(&decls), r.pick(&decls))),
        }
    }
    s
}
fn any_config(r: &mut Rng, bounded_width: bool) -> (Value, &'static str) {
    let decos = ["plain", "plain_nd", "rich", "trivial", "ascii"];
    let dn = *r.pick(&decos);
    let deco = if dn == "ascii" { json!({"custom": {"link_s": "<", "link_e": ">", "em_s": "_", "em_e": "_", "strong_s": "!!", "strong_e": "!!", "strike_s": "~", "strike_e": "~",
                    "code_s": "`", "code_e": "`", "img_s": "(", "img_e": ")", "hdr": "=", "hdr_tail": " ", "quote": "| ", "ul": "- ", "ol_suffix": ") "}}) } else { json!(dn) };
    let mut ops = vec![];
    if r.chance(1, 3) { ops.push(json!(["overflow"])); }
    if r.chance(1, 4) { ops.push(json!(["min_wrap", *r.pick(&[0u64, 1, 3, 8, 1000])])); }
    if r.chance(1, 4) { let m = *r.pick(&["1", "0", "5", "40", "max"]); ops.push(if m == "max" { json!(["max_wrap", "max"]) } else { json!(["max_wrap", m.parse::<u64>().unwrap()]) }); }
    if bounded_width && r.chance(1, 4) { ops.push(json!(["pad"])); }
    if r.chance(1, 5) { ops.push(json!(["raw", r.chance(1, 2)])); }
    if r.chance(1, 5) { ops.push(json!(["noborders"])); }
    if r.chance(1, 5) { ops.push(json!(["nolinkwrap"])); }
    if r.chance(1, 3) { ops.push(json!(["footnotes", r.chance(1, 2)])); }
    if r.chance(1, 5) { ops.push(json!(["strike", r.chance(1, 2)])); }
    if r.chance(1, 5) { ops.push(json!(["decorate"])); }
    if r.chance(1, 3) { ops.push(json!(["doccss"])); }
    if r.chance(1, 4) { ops.push(json!(["css", css_snippet(r)])); }
    if r.chance(1, 6) { ops.push(json!(["agentcss", css_snippet(r)])); }
    let route = if dn == "rich" { *r.pick(&["string", "lines", "coloured", "staged_string", "staged_lines", "staged_coloured", "restaged_lines"]) } else { *r.pick(&["string", "lines", "staged_string", "staged_clone_string", "restaged_string"]) };
    (json!({"deco": deco, "ops": ops}), route)
}
/// C01: bytes of every kind x widths {0, tiny, ordinary, 10^5, usize::MAX} x the configuration product.
fn c01(r: &mut Rng, i: u64, p: &HashMap<String, String>) -> Vec<Value> {
    let maxdepth: u64 = p.get("depth").and_then(|s| s.parse().ok()).unwrap_or(3000);
    let shape = if p.get("shape").map(|s| s == "deep").unwrap_or(false) { 5 } else { r.below(11) };
    let mut levels = 0u64;
    let bytes: Vec<u8> = match shape {
        0 | 1 | 2 | 3 => { let mut f = if r.chance(1, 2) { Feat::all() } else { Feat::notables() }; f.vs16 = true; f.ids = r.chance(1, 3); f.sup = r.chance(1, 3); f.stray = r.chance(1, 2);
                           let mut g = G::new(r, f); let body = g.flow(0);
                           let style = if r.chance(1, 3) { format!("<style>{}</style>", css_snippet(r)) } else { String::new() };
                           let html = format!("{}{}", style, doc_html(&body)); mutate(r, html.as_bytes()) }
        4 => { let n = r.below(400); (0..n).map(|_| if r.chance(1, 3) { *r.pick(b"<>/=\"' &;!-") } else { r.below(256) as u8 }).collect() }
        5 | 6 => { // deep nesting
            let d = if p.get("shape").is_some() { maxdepth } else { *r.pick(&[100u64, 100, 1000, 1000, 1000, maxdepth]) };
            let tag = *r.pick(&["<div>", "<ul><li>", "<table><tr><td>", "<blockquote>", "<b>", "<span>", "<ol><li>", "<dl><dd>", "<em>", "<a href=x>", "<h2>", "<s>", "<sup>", "<pre>", "<p><span>", "<table><tr><td><ul><li>", "<div id=q>", "<span id=q>"]);
            levels = d;
            let mut s = String::new(); for _ in 0..d { s.push_str(tag); } s.push_str("deep text here"); if r.chance(1, 2) { s.push_str(&"</div></li></td></blockquote>".repeat(3)); }
            s.into_bytes() }
        7 => { // hostile numeric attributes
            let cs = ["0", "1", "2", "18446744073709551615", "18446744073709551614", "9223372036854775807", "4294967296", "-1", "65536", "1000000", "x", "", "+3"];
            let st = ["9223372036854775807", "-9223372036854775808", "9223372036854775806", "0", "-1", "99999999999999999999", "1e3", "2147483647"];
            let mut s = String::from("<table>");
            for _ in 0..r.range(1, 3) { s.push_str("<tr>"); for _ in 0..r.range(1, 4) { s.push_str(&format!("<td colspan={}>c{}</td>", r.pick(&cs), r.below(9))); } }
            s.push_str("</table>");
            s.push_str(&format!("<ol start={}>", r.pick(&st))); for _ in 0..r.range(0, 4) { s.push_str("<li>i</li>"); } s.push_str("</ol>");
            s.into_bytes() }
        8 => { // wide / long
            let mut s = String::from("<table><tr>"); for k in 0..r.range(50, 400) { s.push_str(&format!("<td>c{}</td>", k)); } s.push_str("</table>");
            s.push_str(&"x".repeat(r.range(100, 3000) as usize)); for k in 0..r.range(0, 60) { s.push_str(&format!("<a href=u{}>l</a> ", k)); }
            s.into_bytes() }
        9 => sparse_table(r).into_bytes(),
        _ => { let mut f = Feat::all(); f.stray = true;       // (markup the parser has to repair, unmutated)
               let mut g = G::new(r, f); let body = g.flow(0); doc_html(&body).into_bytes() }
    };
    let wsel = if shape == 9 { 99 } else { r.below(12) };
    // 1000 nested tables at width 10^5 and more take ~10 s each (every level draws full-width borders): keep the
    // combination, at depth 100
    let bytes = if (4..=6).contains(&wsel) && bytes.len() > 8000 && bytes.starts_with(b"<table><tr><td>") {
        let unit: &[u8] = if bytes.starts_with(b"<table><tr><td><ul><li>") { b"<table><tr><td><ul><li>" } else { b"<table><tr><td>" };
        let mut v = unit.repeat(100); v.extend_from_slice(b"deep text here"); v } else { bytes };
    let (w, wx): (u64, Option<&str>) = match wsel { 0 => (0, None), 1 => (1, None), 2 => (2, None), 3 => (3, None), 4 => (100000, None), 5 => (0, Some("max")), 6 => (0, Some("max-1")), 99 => (r.range(1, 30), None), _ => (r.range(1, 200), None) };
    let (mut cfgv, mut route) = any_config(r, wx.is_none() && w <= 200);
    let deep = (shape == 5 || shape == 6) && bytes.len() >= 3000;
    if deep && levels > 1000 {
        // beyond ~1000 levels only configurations whose output stays linear in the depth: annotated output carries the
        // whole annotation vector on every piece of text (quadratic for elements that add text of their own at every
        // level), and nested tables with overflow allowed draw one ever wider border per level
        if !["plain", "plain_nd", "trivial"].contains(&cfgv["deco"].as_str().unwrap_or("")) { cfgv["deco"] = json!(*r.pick(&["plain", "plain_nd", "trivial"])); }
        route = *r.pick(&["string", "staged_string", "staged_clone_string"]);
        if bytes.starts_with(b"<table") { if let Some(ops) = cfgv["ops"].as_array_mut() { ops.retain(|o| o[0] != "overflow"); } }
    }
    let mut run = json!({"hx": hex(&bytes), "w": w, "cfg": cfgv, "route": route});
    if let Some(x) = wx { run["wx"] = json!(x); }
    let mut case = json!({"id": id("c01", i), "dom": false, "runs": [run]});
    // deep nesting runs on a thread with a small stack: depth 6000 on 512 KB is the stack budget per level of
    // depth 10^5 on the 8 MB of a main thread; `stack=main` keeps the real scale (8 MB)
    if deep {
        case["stack_kb"] = json!(if p.get("stack").map(|s| s == "main").unwrap_or(false) { 8192 } else { 512 });
    }
    vec![case]
}

/// A table in which most cells (often whole columns) are empty: 1-3 rows x 2-24 columns, short words,
/// a few colspans.  Exercises the column allocation where empty columns get no width.
pub fn sparse_table(r: &mut Rng) -> String {
    let rows = r.range(1, 3); let cols = r.range(2, 24);
    let pe = *r.pick(&[50u64, 80, 95]);
    let mut s = String::from("<table>");
    for _ in 0..rows {
        s.push_str("<tr>");
        let mut c = 0;
        while c < cols {
            let span = if r.chance(1, 8) { r.range(2, 3).min(cols - c) } else { 1 };
            let txt = if r.below(100) < pe { String::new() } else { let n = r.range(1, 3); (0..n).map(|_| { let l = r.range(1, 6); (0..l).map(|_| (b'a' + r.below(26) as u8) as char).collect::<String>() }).collect::<Vec<_>>().join(" ") };
            if span > 1 { s.push_str(&format!("<td colspan={}>{}</td>", span, txt)); } else { s.push_str(&format!("<td>{}</td>", txt)); }
            c += span;
        }
        s.push_str("</tr>");
    }
    s.push_str("</table>");
    s
}

fn css_doc_html(style: &str, body: &[N]) -> String {
    let mut s = String::from("<html><head>");
    if !style.is_empty() { s.push_str("<style>"); s.push_str(style); s.push_str("</style>"); }
    s.push_str("</head><body>");
    for n in body { n.html(&mut s); }
    s.push_str("</body></html>");
    s
}
/// The author sheet cut into several <style> elements (head, top level of the body, inside wrappers): their
/// concatenation in document order is the author sheet.
fn css_doc_html_split(r: &mut Rng, author: &Value, body: &[N]) -> String {
    let rules: Vec<Value> = author.as_array().cloned().unwrap_or_default();
    let k = r.range(2, 4) as usize;
    let mut chunks: Vec<Vec<Value>> = vec![vec![]; k];
    // cut points in order
    let mut cuts: Vec<usize> = (0..k - 1).map(|_| r.below(rules.len() as u64 + 1) as usize).collect();
    cuts.sort();
    let mut ci = 0;
    for (j, rl) in rules.into_iter().enumerate() { while ci < cuts.len() && j >= cuts[ci] { ci += 1; } chunks[ci].push(rl); }
    let texts: Vec<String> = chunks.iter().map(|c| format!("<style>{}</style>", sheet_text(&Value::Array(c.clone()), r, &canonical()))).collect();
    let nhead = r.below(3).min(k as u64) as usize;
    let mut s = String::from("<html><head>");
    for t in &texts[..nhead] { s.push_str(t); }
    s.push_str("</head><body>");
    // the rest goes into the body, in order, at non-decreasing positions; neighbours sometimes share a wrapper
    let rest = &texts[nhead..];
    let mut pos: Vec<usize> = rest.iter().map(|_| r.below(body.len() as u64 + 1) as usize).collect();
    pos.sort();
    let mut j = 0;
    for at in 0..=body.len() {
        let mut here: Vec<&String> = vec![];
        while j < rest.len() && pos[j] == at { here.push(&rest[j]); j += 1; }
        if here.len() >= 2 && r.chance(2, 3) { s.push_str("<div>"); for t in here { s.push_str(t); } s.push_str("</div>"); }
        else if here.len() == 1 && r.chance(1, 4) { s.push_str("<section>"); s.push_str(here[0]); s.push_str("</section>"); }
        else { for t in here { s.push_str(t); } }
        if at < body.len() { body[at].html(&mut s); }
    }
    s.push_str("</body></html>");
    s
}
/// A second <body ..> / <html ..> start tag inside the document: the parser adds its attributes to the element that
/// exists already, but only those the element does not have yet - so the first tag's class and id stay.
fn repeat_root_tags(r: &mut Rng, html: &str, ids: &[String]) -> String {
    let c1 = *r.pick(CLASSES); let c2 = *r.pick(CLASSES);
    let id2 = if !ids.is_empty() && r.chance(1, 2) { r.pick(ids).clone() } else { "i77".to_string() };
    repeat_root_tags_with(r, html, c1, c2, &id2)
}
fn repeat_root_tags_with(r: &mut Rng, html: &str, c1: &str, c2: &str, id2: &str) -> String {
    let first = match r.below(3) { 0 => format!("<body class=\"{}\">", c1), 1 => format!("<body class=\"{}\" id=\"i76\">", c1), _ => "<body id=\"i76\">".to_string() };
    let second = format!("<body class=\"{}\" id=\"{}\" title=\"t\">", c2, id2);
    // (text directly in the body shows the body's own colour)
    let mut out = html.replacen("<body>", &format!("{}{}tbody ", first, if r.chance(1, 2) { second.clone() } else { String::new() }), 1);
    if r.chance(1, 2) { out = out.replacen("</body>", &format!("{}</body>", second), 1); }
    if r.chance(1, 3) { out = out.replacen("<html>", &format!("<html class=\"{}\">", c1), 1).replacen("</body>", &format!("<html class=\"{}\"></body>", c2), 1); }
    out
}
fn rule(sels: Vec<Value>, decls: Vec<Value>) -> Value { json!({"sels": sels, "decls": decls}) }
fn col_decl(c: Value, imp: bool) -> Value { json!({"prop": "color", "val": c, "imp": imp}) }

/// C20: one author rule `sel, sel.. {color: X}` over the agent rule `* {color: B}`.
fn c20(r: &mut Rng, i: u64, p: &HashMap<String, String>) -> Vec<Value> {
    let mut d = CssDoc::new();
    d.tables = r.chance(1, 3);
    let body = d.body(r);
    let nsel = if r.chance(1, 5) { 2 } else { 1 };
    let mut sels: Vec<Value> = (0..nsel).map(|_| selector(r, 4, &d.ids)).collect();
    // a repeated <body> tag: one of the selectors names the class / id that only the second tag carries
    let rep = r.chance(1, 6);
    let (c1, c2) = (*r.pick(CLASSES), *r.pick(CLASSES));
    if rep && c1 != c2 {
        let last = if r.chance(1, 2) { json!({"comb": "", "name": "", "star": false, "cls": [c2], "id": "", "nth": []}) } else { json!({"comb": "", "name": "body", "star": false, "cls": [], "id": "i77", "nth": []}) };
        sels.push(if r.chance(1, 2) { json!([last]) } else { json!([last, {"comb": "child", "name": "", "star": true, "cls": [], "id": "", "nth": []}]) });
    }
    let agent = json!([rule(vec![json!([{"comb": "", "name": "", "star": true, "cls": [], "id": "", "nth": []}])], vec![col_decl(json!([0, 0, 1]), false)])]);
    let author = json!([rule(sels, vec![col_decl(json!([0, 0, 254]), false)])]);
    let vary = Vary { on: r.chance(1, 2), drop_semi: false, double_semi: false, junk: false, unknown_props: false };
    let html = css_doc_html(&sheet_text(&author, r, &vary), &body);
    let html = if rep { repeat_root_tags_with(r, &html, c1, c2, "i77") } else { html };
    let ops = vec![json!(["agentcss", sheet_text(&agent, r, &canonical())]), json!(["doccss"])];
    let w = r.range(5, wmax(p, 80));
    vec![json!({"id": id("c20", i), "meta": {"css": {"agent": agent, "user": [], "author": author}},
                "runs": [run(&html, w, cfg("rich", ops), "lines")]})]
}

/// C19: several declarations of colour / background competing on the same elements, drawn from
/// {agent, user, author, inline} x {normal, important} x specificity classes x source order.
fn c19(r: &mut Rng, i: u64, p: &HashMap<String, String>) -> Vec<Value> {
    let mut d = CssDoc::new();
    d.tables = r.chance(1, 3);
    let mut body = d.body(r);
    let mut k = 0u64;
    let mut mk_sheet = |r: &mut Rng, d: &CssDoc, k: &mut u64| -> Value {
        let n = r.below(4);
        let mut rules = vec![];
        for _ in 0..n {
            // selectors of the five specificity classes, all likely to match something
            let sel = match r.below(6) {
                0 => json!([{"comb": "", "name": *r.pick(NAMES), "star": false, "cls": [], "id": "", "nth": []}]),
                1 => json!([{"comb": "", "name": "", "star": false, "cls": [*r.pick(CLASSES)], "id": "", "nth": []}]),
                2 if !d.ids.is_empty() => json!([{"comb": "", "name": "", "star": false, "cls": [], "id": r.pick(&d.ids).clone(), "nth": []}]),
                3 => json!([{"comb": "", "name": *r.pick(NAMES), "star": false, "cls": [*r.pick(CLASSES)], "id": "", "nth": []}]),
                4 => json!([{"comb": "", "name": "", "star": false, "cls": [], "id": "", "nth": [r.below(3) as i64, r.below(3) as i64]}]),
                _ => selector(r, 2, &d.ids),
            };
            let mut sel = sel;
            let mut decls = vec![];
            if r.chance(1, 6) {
                // a ::before / ::after rule: the winning content text shows up around the element's own text
                let pe = if r.chance(1, 2) { "before" } else { "after" };
                if let Some(last) = sel.as_array_mut().and_then(|a| a.last_mut()) { last["pe"] = json!(pe); }
                *k += 1;
                let txt: String = format!("\u{3c7}{}", char::from_u32(0x3b1 + (*k % 24) as u32).unwrap());
                decls.push(content_decl(&txt, r.chance(1, 3)));
                if r.chance(1, 2) { *k += 1; decls.push(json!({"prop": if r.chance(1, 4) { "bg" } else { "color" }, "val": colour_k(*k), "imp": r.chance(1, 3)})); }
                if r.chance(1, 4) { *k += 1; decls.push(content_decl(&format!("\u{3c7}{}", char::from_u32(0x3b1 + (*k % 24) as u32).unwrap()), r.chance(1, 3))); }
            } else {
                for _ in 0..r.range(1, 2) {
                    *k += 1;
                    // (colours repeat: the same value at different priorities must not confuse the cascade)
                    let kk = if r.chance(1, 3) { r.range(1, *k) } else { *k };
                    decls.push(json!({"prop": if r.chance(1, 4) { "bg" } else { "color" }, "val": colour_k(kk), "imp": r.chance(1, 3)}));
                }
            }
            rules.push(rule(vec![sel], decls));
        }
        Value::Array(rules)
    };
    let agent = mk_sheet(r, &d, &mut k); let user = mk_sheet(r, &d, &mut k); let mut author = mk_sheet(r, &d, &mut k);
    // (several <style> elements: a longer author sheet, cut up below)
    let split = r.chance(1, 3);
    if split { for _ in 0..2 { let more = mk_sheet(r, &d, &mut k); author.as_array_mut().unwrap().extend(more.as_array().cloned().unwrap()); } }
    // inline styles on some elements
    fn add_inline(r: &mut Rng, n: &mut N, k: &mut u64) {
        if let N::E(_, attrs, kids) = n {
            if r.chance(1, 4) {
                *k += 1;
                let kk = if r.chance(1, 3) { r.range(1, *k) } else { *k };
                let dcl = json!({"prop": if r.chance(1, 4) { "bg" } else { "color" }, "val": colour_k(kk), "imp": r.chance(1, 3)});
                attrs.push(("style".into(), style_attr_text(&[dcl])));
            } else if r.chance(1, 12) { *k += 1; attrs.push(("color".into(), colour_hex(&colour(r, *k)))); }
            for c in kids.iter_mut() { add_inline(r, c, k); }
        }
    }
    for n in body.iter_mut() { add_inline(r, n, &mut k); }
    let html = if split { css_doc_html_split(r, &author, &body) } else { css_doc_html(&sheet_text(&author, r, &canonical()), &body) };
    let html = if r.chance(1, 10) { repeat_root_tags(r, &html, &d.ids) } else { html };
    let mut ops = vec![];
    if agent.as_array().unwrap().len() > 0 { ops.push(json!(["agentcss", sheet_text(&agent, r, &canonical())])); }
    if user.as_array().unwrap().len() > 0 { ops.push(json!(["css", sheet_text(&user, r, &canonical())])); }
    if !r.chance(1, 10) { ops.push(json!(["doccss"])); }
    let w = r.range(5, wmax(p, 80));
    vec![json!({"id": id("c19", i), "meta": {"css": {"agent": agent, "user": user, "author": author}},
                "runs": [run(&html, w, cfg("rich", ops), "lines")]})]
}

/// C18: hide a random set of subtrees by class / id / element name / descendant of a marked element /
/// inline style / height:0 + overflow:hidden; the generator also writes the document without them.
fn c18(r: &mut Rng, i: u64, p: &HashMap<String, String>) -> Vec<Value> {
    // a shape of its own: mis-nested inline formatting (the parser moves the children of the block into a clone of the
    // inline element) with a rule that reaches the hidden element through a combinator
    if r.chance(1, 10) {
        let (inl, blk) = (*r.pick(&["em", "b", "strong", "i"]), *r.pick(&["p", "div"]));
        let t: Vec<String> = (0..5).map(|k| format!("t{}{}", (b'a' + k as u8) as char, (b'a' + r.below(26) as u8) as char)).collect();
        let doc = |hidden: &str| format!("<div class=\"d\">{} <{inl} class=\"k\"><{blk}>{} {}</{inl}> {}</{blk}> {}</div>", t[0], t[1], hidden, t[3], t[4]);
        let span = format!("<span class=\"s\">{}</span>", t[2]);
        let selname = if blk == "p" { "p" } else { "div" };
        let sel = match r.below(4) {
            0 => json!([{"comb": "", "name": "", "star": false, "cls": ["k"], "id": "", "nth": []}, {"comb": "desc", "name": "", "star": false, "cls": ["s"], "id": "", "nth": []}]),
            1 => json!([{"comb": "", "name": inl, "star": false, "cls": [], "id": "", "nth": []}, {"comb": "desc", "name": "span", "star": false, "cls": [], "id": "", "nth": []}]),
            2 => json!([{"comb": "", "name": "", "star": false, "cls": ["k"], "id": "", "nth": []}, {"comb": "child", "name": "span", "star": false, "cls": [], "id": "", "nth": []}]),
            _ => json!([{"comb": "", "name": selname, "star": false, "cls": [], "id": "", "nth": []}, {"comb": "child", "name": inl, "star": false, "cls": [], "id": "", "nth": []}, {"comb": "child", "name": "", "star": false, "cls": ["s"], "id": "", "nth": []}]),
        };
        let author = json!([rule(vec![sel], vec![json!({"prop": "display", "val": "none", "imp": false})])]);
        let style = sheet_text(&author, r, &canonical());
        let wrap = |b: String| format!("<html><head><style>{}</style></head><body>{}</body></html>", style, b);
        let (h1, h2) = (wrap(doc(&span)), wrap(doc("<!---->")));
        let deco = *r.pick(&["plain", "rich", "plain_nd"]);
        let route = if deco == "rich" { "lines" } else { "string" };
        let w = r.range(4, wmax(p, 60));
        let on = cfg(deco, vec![json!(["doccss"])]);
        return vec![json!({"id": id("c18", i), "meta": {"css": {"agent": [], "user": [], "author": author}},
                           "runs": [run(&h1, w, on.clone(), route), run(&h2, w, on, route)]})];
    }
    // another shape of its own: a chain of nested blocks whose names and classes repeat, and a display:none rule that
    // reaches a <span> at the bottom through 2-4 compounds joined by child / descendant combinators - matching has to
    // backtrack over the ancestors (`.m > div span`: the nearest div is not a child of .m, a farther one is)
    if r.chance(1, 8) {
        let n = r.range(3, 5) as usize;
        let mut path: Vec<(String, String)> = (0..n).map(|_| ((*r.pick(&["div", "section", "div"])).to_string(), (*r.pick(&["m", "n", "", ""])).to_string())).collect();
        path.push(("span".to_string(), "s".to_string()));
        let t: Vec<String> = (0..5).map(|k| format!("u{}{}", (b'a' + k as u8) as char, (b'a' + r.below(26) as u8) as char)).collect();
        // the selector: an ascending choice of chain elements, then the span
        let mut idx: Vec<usize> = (0..n).filter(|_| r.chance(1, 2)).collect();
        if idx.is_empty() { idx.push(r.below(n as u64) as usize); }
        while idx.len() > 3 { let k = r.below(idx.len() as u64) as usize; idx.remove(k); }
        idx.push(n);
        let mut comps: Vec<(String, String, String)> = vec![];        // (comb, name, class)
        for (q, &pi) in idx.iter().enumerate() {
            let comb = if q == 0 { "" } else if idx[q - 1] + 1 == pi { if r.chance(1, 2) { "child" } else { "desc" } } else if r.chance(3, 4) { "desc" } else { "child" };
            let (nm, cl) = &path[pi];
            let by_class = !cl.is_empty() && r.chance(1, 2);
            comps.push((comb.to_string(), if by_class { String::new() } else { nm.clone() }, if by_class { cl.clone() } else { String::new() }));
        }
        fn m(comps: &[(String, String, String)], path: &[(String, String)], ci: usize, pi: usize) -> bool {
            let (comb, nm, cl) = &comps[ci];
            if !(nm.is_empty() || *nm == path[pi].0) || !(cl.is_empty() || *cl == path[pi].1) { return false; }
            if ci == 0 { return true; }
            if comb == "child" { pi > 0 && m(comps, path, ci - 1, pi - 1) } else { (0..pi).any(|q| m(comps, path, ci - 1, q)) }
        }
        let hidden = m(&comps, &path, comps.len() - 1, n);
        let sel: Vec<Value> = comps.iter().map(|(c, nm, cl)| json!({"comb": c, "name": nm, "star": false, "cls": if cl.is_empty() { json!([]) } else { json!([cl]) }, "id": "", "nth": []})).collect();
        let author = json!([rule(vec![Value::Array(sel)], vec![json!({"prop": "display", "val": "none", "imp": false})])]);
        let style = sheet_text(&author, r, &canonical());
        let doc = |inner: &str| {
            let mut open = String::new(); let mut close = String::new();
            for (k, (nm, cl)) in path[..n].iter().enumerate() {
                open.push_str(&if cl.is_empty() { format!("<{}>", nm) } else { format!("<{} class=\"{}\">", nm, cl) });
                if k == 0 { open.push_str(&format!("{} ", t[0])); }
                close = format!("</{}>{}", nm, close);
            }
            format!("{}{} {} {}{} {}", open, t[1], inner, t[3], close, t[4])
        };
        let span = format!("<span class=\"s\">{}</span>", t[2]);
        let wrap = |b: String| format!("<html><head><style>{}</style></head><body>{}</body></html>", style, b);
        let (h1, h2) = (wrap(doc(&span)), wrap(doc(if hidden { "<!---->" } else { &span })));
        let deco = *r.pick(&["plain", "rich", "plain_nd"]);
        let route = if deco == "rich" { "lines" } else { "string" };
        let w = r.range(4, wmax(p, 60));
        let on = cfg(deco, vec![json!(["doccss"])]);
        return vec![json!({"id": id("c18", i), "meta": {"css": {"agent": [], "user": [], "author": author}},
                           "runs": [run(&h1, w, on.clone(), route), run(&h2, w, on, route)]})];
    }
    // a richer document: block grammar with lists, quotes, headings, links, tables
    let mut f = if r.chance(1, 3) { Feat::all() } else { Feat::notables() };
    f.ids = r.chance(1, 3); f.pre = r.chance(1, 3);      // ids: fragment markers of hidden subtrees must vanish too
    let mut g = G::new(r, f);
    let mut body = g.flow(0);
    let mut rules: Vec<Value> = vec![];
    let mut nh = 0u32;
    // mark: returns true if this node is to be deleted
    fn walk(r: &mut Rng, n: &mut N, rules: &mut Vec<Value>, nh: &mut u32, hidden_names: &[&str]) -> bool {
        let N::E(name, attrs, kids) = n else { return false };
        if hidden_names.contains(&name.as_str()) { return true; }
        if r.chance(1, 9) && !["html", "body", "tbody", "thead"].contains(&name.as_str()) {
            *nh += 1;
            let disp = json!({"prop": "display", "val": "none", "imp": r.chance(1, 4)});
            let has_id = attrs.iter().any(|(k, _)| k == "id");
            let has_class = attrs.iter().any(|(k, _)| k == "class");
            let mut pick = r.below(5);
            if pick == 1 && has_id { pick = 0; }
            if (pick == 0 || pick == 4) && has_class { pick = 2; }
            match pick {
                0 => { attrs.push(("class".into(), format!("h{}", nh))); rules.push(json!({"sels": [[{"comb": "", "name": "", "star": false, "cls": [format!("h{}", nh)], "id": "", "nth": []}]], "decls": [disp]})); }
                1 => { attrs.push(("id".into(), format!("hid{}", nh))); rules.push(json!({"sels": [[{"comb": "", "name": name.clone(), "star": false, "cls": [], "id": format!("hid{}", nh), "nth": []}]], "decls": [disp]})); }
                2 => { if r.chance(1, 4) { attrs.push(((*r.pick(&["bgcolor", "color"])).into(), (*r.pick(&["", "none", "#12", "transparent"])).into())); }
                       attrs.push(("style".into(), "display:none".into())); }
                3 => { let h = *r.pick(&["height:0", "height:0px", "max-height:0"]); let o = *r.pick(&["overflow:hidden", "overflow-y:hidden"]);
                       attrs.push(("style".into(), if r.chance(1, 2) { format!("{};{}", h, o) } else { format!("{};{}", o, h) })); }
                _ => { attrs.push(("class".into(), format!("k{}", nh)));
                       rules.push(json!({"sels": [[{"comb": "", "name": "", "star": false, "cls": [format!("k{}", nh)], "id": "", "nth": []}]],
                                         "decls": if r.chance(1, 2) { json!([{"prop": "height", "val": 0, "imp": false}, {"prop": "overflow", "val": "hidden", "imp": false}]) }
                                                  else { json!([{"prop": "overflow", "val": "hidden", "imp": false}, {"prop": "height", "val": 0, "imp": false}]) }})); }
            }
            return true;
        }
        // a decoy: a display:none rule that selects nothing, because the one element that carries its class would have to
        // be its own ancestor / parent / sibling, or carry a class that nobody has
        if r.chance(1, 10) && !attrs.iter().any(|(k, _)| k == "class") && !["html", "body"].contains(&name.as_str()) {
            *nh += 1;
            let cls = format!("d{}", nh);
            attrs.push(("class".into(), cls.clone()));
            let me = |comb: &str, nm: &str| json!({"comb": comb, "name": nm, "star": false, "cls": [cls.clone()], "id": "", "nth": []});
            let sel = match r.below(6) {
                0 => json!([me("", ""), me("desc", "")]),
                1 => json!([me("", ""), me("child", "")]),
                2 => json!([me("", name.as_str()), me("desc", name.as_str())]),
                3 => json!([{"comb": "", "name": name.clone(), "star": false, "cls": [], "id": "", "nth": []}, me("desc", ""), me("desc", "")]),
                4 => json!([{"comb": "", "name": "", "star": false, "cls": [cls.clone(), "nobody".to_string()], "id": "", "nth": []}]),
                _ => json!([me("", ""), {"comb": "desc", "name": "", "star": false, "cls": ["nobody"], "id": "", "nth": []}]),
            };
            rules.push(json!({"sels": [sel], "decls": [{"prop": "display", "val": "none", "imp": r.chance(1, 4)}]}));
        }
        let mut k = 0;
        while k < kids.len() { if walk(r, &mut kids[k], rules, nh, hidden_names) { kids[k] = mark_deleted(kids[k].clone()); } k += 1; }
        false
    }
    fn mark_deleted(n: N) -> N { if let N::E(name, mut attrs, kids) = n { attrs.push(("data-del".into(), "1".into())); N::E(name, attrs, kids) } else { n } }
    // deleting a node from the DOM leaves its neighbours as they are: a comment stands in for it in the source, so that
    // the text nodes on either side are not merged into one by the parser
    fn without_deleted(ns: &[N]) -> Vec<N> {
        ns.iter().map(|n| match n {
            N::E(_, a, _) if a.iter().any(|(k, _)| k == "data-del") => N::Raw("<!---->".into()),
            N::E(name, a, kids) => N::E(name.clone(), a.clone(), without_deleted(kids)), o => o.clone() }).collect()
    }
    fn strip_marks(ns: &[N]) -> Vec<N> {
        ns.iter().map(|n| match n { N::E(name, a, kids) => N::E(name.clone(), a.iter().filter(|(k, _)| k != "data-del").cloned().collect(), strip_marks(kids)), o => o.clone() }).collect()
    }
    // sometimes hide every element of one name through an element rule
    let hidden_names: Vec<&str> = if r.chance(1, 5) { vec![*r.pick(&["em", "li", "h2", "blockquote", "code", "td", "a", "p"])] } else { vec![] };
    for hn in &hidden_names { rules.push(json!({"sels": [[{"comb": "", "name": hn, "star": false, "cls": [], "id": "", "nth": []}]], "decls": [{"prop": "display", "val": "none", "imp": false}]})); }
    let mut k = 0;
    while k < body.len() { if walk(r, &mut body[k], &mut rules, &mut nh, &hidden_names) { body[k] = mark_deleted(body[k].clone()); } k += 1; }
    let author = Value::Array(rules);
    let vary = Vary { on: r.chance(1, 2), drop_semi: false, double_semi: false, junk: false, unknown_props: false };
    let style = sheet_text(&author, r, &vary);
    let full = strip_marks(&body);
    let deleted = without_deleted(&body);
    let (mut h1, mut h2) = (css_doc_html(&style, &full), css_doc_html(&style, &deleted));
    // a repeated <body> start tag: its class / id do not replace those of the first tag, so a rule that names
    // them (appended to the sheet as text; it selects nothing) hides nothing
    if r.chance(1, 10) {
        let extra = "\n.gone { display: none } body.gone > * { display: none }";
        for h in [&mut h1, &mut h2] {
            *h = h.replacen("</style>", &format!("{}</style>", extra), 1)
                  .replacen("<body>", &format!("<body class=\"page\">{}", if r.chance(1, 2) { "<body class=\"gone\" title=\"t\">" } else { "" }), 1)
                  .replacen("</body>", "<body class=\"gone\" lang=\"x\"></body>", 1);
        }
    }
    // StripStyle(d): no <style>, no style attributes
    fn strip_style(ns: &[N]) -> Vec<N> { ns.iter().map(|n| match n { N::E(name, a, kids) => N::E(name.clone(), a.iter().filter(|(k, _)| k != "style").cloned().collect(), strip_style(kids)), o => o.clone() }).collect() }
    let h3 = css_doc_html("", &strip_style(&full));
    let deco = *r.pick(&["plain", "rich", "plain_nd"]);
    let route = if deco == "rich" { "lines" } else { "string" };
    // (the document with its sheets also through the staged calls, converting the parsed document twice)
    let route1 = if r.chance(1, 4) { if deco == "rich" { "restaged_lines" } else { "restaged_string" } } else { route };
    let w = r.range(1, wmax(p, 100));
    let on = cfg(deco, vec![json!(["doccss"])]);
    let off = cfg(deco, vec![]);
    vec![json!({"id": id("c18", i), "meta": {"css": {"agent": [], "user": [], "author": author}},
                "runs": [run(&h1, w, on.clone(), route1), run(&h2, w, on, route), run(&h1, w, off.clone(), route), run(&h3, w, off.clone(), route),
                         // the document without its hidden subtrees has nothing left for its sheets to select: rendered with
                         // document CSS off it is the reference for the elements that are *not* hidden
                         run(&h2, w, off, route)]})]
}

/// C17: (total) any string to add_css; (inert) malformed CSS inside a document; (variant) a valid sheet
/// and a syntactic variant of it.
fn c17(r: &mut Rng, i: u64, p: &HashMap<String, String>) -> Vec<Value> {
    let mut d = CssDoc::new();
    d.tables = r.chance(1, 3);
    let body = d.body(r);
    let w = r.range(5, wmax(p, 80));
    // a valid sheet of colour rules
    let n = r.range(1, 4);
    let mut k = 0u64;
    let rules: Vec<Value> = (0..n).map(|_| { k += 1; let mut decls = vec![json!({"prop": if r.chance(1, 4) { "bg" } else { "color" }, "val": colour(r, k), "imp": r.chance(1, 5)})];
        if r.chance(1, 3) { k += 1; decls.push(json!({"prop": "bg", "val": colour(r, k), "imp": false})); }
        let nsel = if r.chance(1, 4) { 2 } else { 1 };
        rule((0..nsel).map(|_| selector(r, 3, &d.ids)).collect(), decls) }).collect();
    let sheet = Value::Array(rules);
    match r.below(3) {
        0 => {
            // total: valid sheets, truncations, token soup, random unicode
            let vv = Vary { on: true, drop_semi: r.chance(1, 3), double_semi: r.chance(1, 5), junk: true, unknown_props: true };
            let base = sheet_text(&sheet, r, &vv);
            let s: String = match r.below(4) {
                0 => { let cut = r.below(base.chars().count() as u64 + 1) as usize; base.chars().take(cut).collect() }
                1 => { let toks = ["{", "}", ";", ":", ",", "(", ")", "[", "]", "@media", "@", "#", ".", "*", ">", "+", "~", "!important", "!", "\"", "'", "\\", "/*", "*/", "<!--", "-->", "url(", "rgb(", "1e9", "-", "--x", "\\41 ", "p", "color", "red", "#fff", "99999999999999999999", "nth-child(", ":", "::before", "content", "\n", " ", "\u{0}", "é", "一", "\u{fffd}"];
                       (0..r.range(0, 60)).map(|_| *r.pick(&toks)).collect::<Vec<_>>().join(if r.chance(1, 2) { " " } else { "" }) }
                2 => { String::from_utf8_lossy(&mutate(r, base.as_bytes())).into_owned() }
                _ => base,
            };
            let html = css_doc_html("", &body);
            let which = if r.chance(1, 3) { "agentcss" } else { "css" };
            vec![json!({"id": id("c17", i), "dom": false, "meta": {"kind": "total"}, "runs": [run(&html, w, cfg("rich", vec![json!([which, s])]), "lines")]})]
        }
        1 => {
            // inert: colour-only / junk CSS in the document must not change the text
            let vv = Vary { on: true, drop_semi: r.chance(1, 3), double_semi: r.chance(1, 5), junk: true, unknown_props: true };
            let base = sheet_text(&sheet, r, &vv);
            let mut s = match r.below(3) { 0 => { let cut = r.below(base.chars().count() as u64 + 1) as usize; base.chars().take(cut).collect() }
                                           1 => String::from_utf8_lossy(&mutate(r, base.as_bytes())).into_owned(), _ => base };
            // keep the text-affecting properties and tag-like bytes out of the style element
            for bad in ["display", "content", "white-space", "height", "overflow", "<", "DISPLAY", "Display"] { s = s.replace(bad, "x"); }
            let h1 = css_doc_html(&s, &body); let h2 = css_doc_html("", &body);
            let deco = *r.pick(&["plain", "rich"]);
            let c = cfg(deco, vec![json!(["doccss"])]);
            vec![json!({"id": id("c17", i), "dom": false, "meta": {"kind": "inert"}, "runs": [run(&h1, w, c.clone(), "string"), run(&h2, w, c, "string")]})]
        }
        _ => {
            // variant: same sheet, different insignificant syntax
            let canon = sheet_text(&sheet, r, &canonical());
            let v = Vary { on: true, drop_semi: r.chance(1, 3), double_semi: r.chance(1, 6), junk: r.chance(1, 2), unknown_props: r.chance(1, 2) };
            let var = sheet_text(&sheet, r, &v);
            let (ops1, ops2, h1, h2) = if r.chance(1, 3) {
                (vec![json!(["doccss"])], vec![json!(["doccss"])], css_doc_html(&canon, &body), css_doc_html(&var, &body))
            } else if r.chance(1, 2) {
                // every <style> element is a sheet of its own: a broken one (an unterminated statement that selects
                // nothing) in front of the real one must not swallow any of its rules
                let junk = *r.pick(&["@import url(extra.css)", "h9 { color: blue", "@media print { h9 { color: red }", "h9 { color: red; /* open", "h9[x=\"y { color: red }", "@charset \"utf-8\"", "h9, "]);
                let h2 = css_doc_html(&var, &body).replacen("<style>", &format!("<style>{}</style><style>", junk), 1);
                (vec![json!(["doccss"])], vec![json!(["doccss"])], css_doc_html(&canon, &body), h2)
            } else {
                let h = css_doc_html("", &body);
                (vec![json!(["css", canon])], vec![json!(["css", var])], h.clone(), h)
            };
            vec![json!({"id": id("c17", i), "dom": false, "meta": {"kind": "variant", "drop": v.drop_semi, "dbl": v.double_semi, "junk": v.junk},
                        "runs": [run(&h1, w, cfg("rich", ops1), "lines"), run(&h2, w, cfg("rich", ops2), "lines")]})]
        }
    }
}
