//! Case families: which runs each property needs. One entry per property group.
use crate::gen::*;
use serde_json::{json, Value};
use std::collections::HashMap;

fn id(fam: &str, i: u64) -> String { format!("{}-{}", fam, i) }

pub fn gen_case(fam: &str, r: &mut Rng, i: u64, p: &HashMap<String, String>) -> Vec<Value> {
    match fam {
        "c02" => c02(r, i, p),
        "c03" => c03(r, i, p),
        _ => vec![],
    }
}

fn wmax(p: &HashMap<String, String>, d: u64) -> u64 { p.get("wmax").and_then(|s| s.parse().ok()).unwrap_or(d) }

/// C02: full grammar, all option mixes without overflow / no_link_wrapping, widths 1..wmax.
fn c02(r: &mut Rng, i: u64, p: &HashMap<String, String>) -> Vec<Value> {
    let mut f = if r.chance(1, 2) { Feat::all() } else { Feat::notables() };
    f.ids = r.chance(1, 4);
    let mut g = G::new(r, f);
    let body = g.flow(0);
    let html = doc_html(&body);
    let deco = deco_std(r);
    let ops = opts_c02(r);
    let route = route_for(deco, r);
    let wm = wmax(p, 120);
    let w = if r.chance(2, 3) { r.range(1, 30.min(wm)) } else { r.range(1, wm) };
    vec![json!({"id": id("c02", i), "runs": [run(&html, w, cfg(deco, ops), route)]})]
}

/// C03: text preservation; decorators trivial/plain/rich, option mixes that still yield Ok.
fn c03(r: &mut Rng, i: u64, p: &HashMap<String, String>) -> Vec<Value> {
    let mut f = if r.chance(1, 2) { Feat::all() } else { Feat::notables() };
    f.ids = r.chance(1, 4);
    let mut g = G::new(r, f);
    let body = g.flow(0);
    let html = doc_html(&body);
    let deco = *r.pick(&["plain", "rich", "trivial", "plain_nd"]);
    let mut ops = opts_c02(r);
    if r.chance(1, 5) { ops.push(json!(["overflow"])); }
    if r.chance(1, 8) { ops.push(json!(["nolinkwrap"])); }
    let route = route_for(deco, r);
    let wm = wmax(p, 200);
    let w = if r.chance(2, 3) { r.range(1, 40.min(wm)) } else { r.range(1, wm) };
    vec![json!({"id": id("c03", i), "runs": [run(&html, w, cfg(deco, ops), route)]})]
}
