//! Execute cases on the real html2text API and abstract the results (no oracle here).
use crate::dom::{cells, cw};
use html2text::config::{self, Config};
use html2text::render::{RichAnnotation, RichDecorator, PlainDecorator, TrivialDecorator, TaggedLine, TaggedLineElement, TextDecorator};
use html2text::Error;
use serde_json::{json, Value};
use std::panic::{catch_unwind, AssertUnwindSafe};
use unicode_width::UnicodeWidthStr;

pub trait AnnJson { fn ann_json(&self) -> Value; }
impl AnnJson for () { fn ann_json(&self) -> Value { json!(["U"]) } }
impl AnnJson for RichAnnotation {
    fn ann_json(&self) -> Value {
        match self {
            RichAnnotation::Default => json!(["D"]),
            RichAnnotation::Link(u) => json!(["L", u]),
            RichAnnotation::Image(s) => json!(["I", s]),
            RichAnnotation::Emphasis => json!(["E"]),
            RichAnnotation::Strong => json!(["S"]),
            RichAnnotation::Strikeout => json!(["K"]),
            RichAnnotation::Code => json!(["C"]),
            RichAnnotation::Preformat(b) => json!(["P", if *b { 1 } else { 0 }]),
            RichAnnotation::Colour(c) => json!(["Fg", c.r, c.g, c.b]),
            RichAnnotation::BgColour(c) => json!(["Bg", c.r, c.g, c.b]),
            _ => json!(["?"]),
        }
    }
}

/// Parameterised decorator (C16, and the ASCII custom decorator of C01).
#[derive(Clone, Debug, Default)]
pub struct ParamDeco {
    pub link: (String, String), pub em: (String, String), pub strong: (String, String),
    pub strike: (String, String), pub code: (String, String), pub img: (String, String),
    pub hdr: String, pub hdr_tail: String, pub quote: String, pub ul: String, pub ol_suffix: String,
    /// per nesting level (cycling): the marker suffix of ordered lists; empty = ol_suffix at every level
    pub ol_suffixes: Vec<String>, pub level: i64,
}
impl ParamDeco {
    pub fn from_json(v: &Value) -> ParamDeco {
        let s = |k: &str| v.get(k).and_then(|x| x.as_str()).unwrap_or("").to_string();
        let p = |k: &str| (s(&format!("{}_s", k)), s(&format!("{}_e", k)));
        ParamDeco { link: p("link"), em: p("em"), strong: p("strong"), strike: p("strike"), code: p("code"), img: p("img"),
                    hdr: s("hdr"), hdr_tail: s("hdr_tail"), quote: s("quote"), ul: s("ul"), ol_suffix: s("ol_suffix"),
                    ol_suffixes: v.get("ol_suffixes").and_then(|a| a.as_array()).map(|a| a.iter().filter_map(|x| x.as_str().map(|s| s.to_string())).collect()).unwrap_or_default(),
                    level: v.get("level").and_then(|x| x.as_i64()).unwrap_or(0) }
    }
}
impl TextDecorator for ParamDeco {
    type Annotation = ();
    fn decorate_link_start(&mut self, _u: &str) -> (String, ()) { (self.link.0.clone(), ()) }
    fn decorate_link_end(&mut self) -> String { self.link.1.clone() }
    fn decorate_em_start(&self) -> (String, ()) { (self.em.0.clone(), ()) }
    fn decorate_em_end(&self) -> String { self.em.1.clone() }
    fn decorate_strong_start(&self) -> (String, ()) { (self.strong.0.clone(), ()) }
    fn decorate_strong_end(&self) -> String { self.strong.1.clone() }
    fn decorate_strikeout_start(&self) -> (String, ()) { (self.strike.0.clone(), ()) }
    fn decorate_strikeout_end(&self) -> String { self.strike.1.clone() }
    fn decorate_code_start(&self) -> (String, ()) { (self.code.0.clone(), ()) }
    fn decorate_code_end(&self) -> String { self.code.1.clone() }
    fn decorate_preformat_first(&self) {}
    fn decorate_preformat_cont(&self) {}
    fn decorate_image(&mut self, _src: &str, title: &str) -> (String, ()) { (format!("{}{}{}", self.img.0, title, self.img.1), ()) }
    fn header_prefix(&self, level: usize) -> String { self.hdr.repeat(level) + &self.hdr_tail }
    fn quote_prefix(&self) -> String { self.quote.clone() }
    fn unordered_item_prefix(&self) -> String { self.ul.clone() }
    fn ordered_item_prefix(&self, i: i64) -> String {
        let suf = if self.ol_suffixes.is_empty() { &self.ol_suffix } else { &self.ol_suffixes[self.level.rem_euclid(self.ol_suffixes.len() as i64) as usize] };
        format!("{}{}", i, suf)
    }
    // a decorator may style nested blocks differently: the copy made for a sub-block is one level deeper
    fn make_subblock_decorator(&self) -> Self { let mut d = self.clone(); d.level += 1; d }
}

/// The decorator's strings as observed through its public trait methods.
fn deco_strings<D: TextDecorator>(d: &D) -> Value {
    let mut d = d.make_subblock_decorator();
    let (ls, _) = d.decorate_link_start("U");
    let le = d.decorate_link_end();
    let (img, _) = d.decorate_image("S", "\u{1}");
    let (ip, is) = match img.split_once('\u{1}') { Some((a, b)) => (a.to_string(), b.to_string()), None => (img.clone(), String::new()) };
    let ol7 = d.ordered_item_prefix(7);
    let olsuf = ol7.strip_prefix('7').unwrap_or(&ol7).to_string();
    let (sup_s, _) = d.decorate_superscript_start();
    json!({
        "link": [cells(&ls), cells(&le)],
        "em": [cells(&d.decorate_em_start().0), cells(&d.decorate_em_end())],
        "strong": [cells(&d.decorate_strong_start().0), cells(&d.decorate_strong_end())],
        "strike": [cells(&d.decorate_strikeout_start().0), cells(&d.decorate_strikeout_end())],
        "code": [cells(&d.decorate_code_start().0), cells(&d.decorate_code_end())],
        "img": [cells(&ip), cells(&is)],
        "sup": [cells(&sup_s), cells(&d.decorate_superscript_end())],
        "hdr": (1..=6).map(|l| cells(&d.header_prefix(l))).collect::<Vec<_>>(),
        "hdrb": (1..=6).map(|l| d.header_prefix(l).len()).collect::<Vec<_>>(),
        "quote": cells(&d.quote_prefix()), "quoteb": d.quote_prefix().len(),
        "ul": cells(&d.unordered_item_prefix()), "ulb": d.unordered_item_prefix().len(),
        "olsuf": cells(&olsuf), "olsufb": olsuf.len(),
    })
}

pub enum Outcome { Ok(Value), Narrow, CssErr, Fail(String), Panic(String) }

fn err_outcome(e: Error) -> Outcome {
    match e {
        Error::TooNarrow => Outcome::Narrow,
        Error::CssParseError => Outcome::CssErr,
        other => Outcome::Fail(format!("{:?}", other)),
    }
}

pub fn plain_lines(s: &str) -> Value {
    // into_string() writes every line followed by '\n'
    let mut ls: Vec<&str> = s.split('\n').collect();
    if ls.last() == Some(&"") { ls.pop(); }
    json!({"lines": ls.iter().map(|l| cells(l)).collect::<Vec<_>>(),
           "sw": ls.iter().map(|l| UnicodeWidthStr::width(*l)).collect::<Vec<_>>()})
}
pub fn tagged_lines<A: AnnJson + std::fmt::Debug + Eq + PartialEq + Clone + Default>(lines: &[TaggedLine<Vec<A>>]) -> Value {
    let mut out = Vec::new();
    let mut sw = Vec::new();
    for l in lines {
        let mut items = Vec::new();
        let mut s = String::new();
        for e in l.iter() {
            match e {
                TaggedLineElement::FragmentStart(f) => items.push(json!([-1, 0, [["F", f]]])),
                TaggedLineElement::Str(ts) => {
                    let t: Vec<Value> = ts.tag.iter().map(|a| a.ann_json()).collect();
                    s.push_str(&ts.s);
                    for c in ts.s.chars() { items.push(json!([c as u32, cw(c), t])); }
                }
            }
        }
        sw.push(UnicodeWidthStr::width(s.as_str()));
        out.push(Value::Array(items));
    }
    json!({"lines": out, "sw": sw})
}

fn apply_ops<D: TextDecorator>(mut c: Config<D>, ops: &[Value]) -> Result<Config<D>, Error> {
    for op in ops {
        let name = op[0].as_str().unwrap_or("");
        let n = || -> usize {
            match &op[1] {
                Value::String(s) if s == "max" => usize::MAX,
                Value::String(s) if s == "max-1" => usize::MAX - 1,
                v => v.as_u64().unwrap_or(0) as usize,
            }
        };
        let b = || op[1].as_bool().unwrap_or(op[1].as_i64().unwrap_or(0) != 0);
        c = match name {
            "max_wrap" => c.max_wrap_width(n()),
            "min_wrap" => c.min_wrap_width(n()),
            "pad" => c.pad_block_width(),
            "overflow" => c.allow_width_overflow(),
            "raw" => c.raw_mode(b()),
            "noborders" => c.no_table_borders(),
            "nolinkwrap" => c.no_link_wrapping(),
            "footnotes" => c.link_footnotes(b()),
            "strike" => c.unicode_strikeout(b()),
            "decorate" => c.do_decorate(),
            "doccss" => c.use_doc_css(),
            "css" => c.add_css(op[1].as_str().unwrap_or(""))?,
            "agentcss" => c.add_agent_css(op[1].as_str().unwrap_or(""))?,
            _ => c,
        };
    }
    Ok(c)
}

pub fn width_of(run: &Value) -> usize {
    match run.get("wx").and_then(|v| v.as_str()) {
        Some("max") => usize::MAX,
        Some("max-1") => usize::MAX - 1,
        _ => run["w"].as_u64().unwrap_or(0) as usize,
    }
}

fn run_generic<D: TextDecorator>(c: Config<D>, html: &[u8], w: usize, route: &str) -> Outcome
where D::Annotation: AnnJson {
    match route {
        "string" => match c.string_from_read(html, w) { Ok(s) => Outcome::Ok(plain_lines(&s)), Err(e) => err_outcome(e) },
        "lines" => match c.lines_from_read(html, w) { Ok(l) => Outcome::Ok(tagged_lines(&l)), Err(e) => err_outcome(e) },
        "staged_string" | "staged_lines" | "staged_clone_string" | "restaged_string" | "restaged_lines" => {
            let dom = match c.parse_html(html) { Ok(d) => d, Err(e) => return err_outcome(e) };
            let tree = match c.dom_to_render_tree(&dom) { Ok(t) => t, Err(e) => return err_outcome(e) };
            // restaged: the same parsed document converted a second time (as a viewer does on every redraw); the
            // first tree is dropped, the second one rendered
            let tree = if route.starts_with("restaged") { drop(tree); match c.dom_to_render_tree(&dom) { Ok(t) => t, Err(e) => return err_outcome(e) } } else { tree };
            let route = if route == "restaged_lines" { "staged_lines" } else if route == "restaged_string" { "staged_string" } else { route };
            let tree = if route == "staged_clone_string" { let t2 = tree.clone(); drop(tree); t2 } else { tree };
            if route == "staged_lines" {
                match c.render_to_lines(tree, w) { Ok(l) => Outcome::Ok(tagged_lines(&l)), Err(e) => err_outcome(e) }
            } else {
                match c.render_to_string(tree, w) { Ok(s) => Outcome::Ok(plain_lines(&s)), Err(e) => err_outcome(e) }
            }
        }
        _ => Outcome::Fail(format!("unknown route {}", route)),
    }
}
fn run_rich(c: Config<RichDecorator>, html: &[u8], w: usize, route: &str) -> Outcome {
    match route {
        "coloured" => match c.coloured(html, w, |_, s| s.to_string()) { Ok(s) => Outcome::Ok(plain_lines(&s)), Err(e) => err_outcome(e) },
        "staged_coloured" => {
            let dom = match c.parse_html(html) { Ok(d) => d, Err(e) => return err_outcome(e) };
            let tree = match c.dom_to_render_tree(&dom) { Ok(t) => t, Err(e) => return err_outcome(e) };
            match c.render_coloured(tree, w, |_, s| s.to_string()) { Ok(s) => Outcome::Ok(plain_lines(&s)), Err(e) => err_outcome(e) }
        }
        _ => run_generic(c, html, w, route),
    }
}

/// As `run_one`, with the library's trace hook (cfg html2text_verif) recording one event per
/// do_render_node call: returns the events as [kind, 17 scalars of the renderer, 3 of the node's size estimate] arrays.
pub fn run_one_steps(html: &[u8], w: usize, cfg: &Value, route: &str) -> (Outcome, Value, Value) {
    html2text::verif::start();
    let (o, ds) = run_one(html, w, cfg, route);
    let ev = html2text::verif::take();
    let steps: Vec<Value> = ev.into_iter().map(|(k, p)| { let mut v = vec![json!(k)]; v.extend(p.iter().map(|x| json!(x))); Value::Array(v) }).collect();
    (o, ds, Value::Array(steps))
}

/// Build the configuration named by `cfg` and run one route. Returns (outcome, decorator strings).
pub fn run_one(html: &[u8], w: usize, cfg: &Value, route: &str) -> (Outcome, Value) {
    let ops: Vec<Value> = cfg.get("ops").and_then(|o| o.as_array()).cloned().unwrap_or_default();
    let deco = cfg.get("deco").cloned().unwrap_or(json!("plain"));
    macro_rules! go {
        ($mk:expr, $runner:ident) => {{
            let base = $mk;
            let ds = deco_strings(&base.1);
            let r = catch_unwind(AssertUnwindSafe(|| match apply_ops(base.0, &ops) {
                Ok(c) => $runner(c, html, w, route),
                Err(e) => err_outcome(e),
            }));
            (match r { Ok(o) => o, Err(p) => Outcome::Panic(panic_msg(p)) }, ds)
        }};
    }
    match deco.as_str() {
        Some("plain") => go!((config::plain(), PlainDecorator::new()), run_generic),
        Some("plain_nd") => go!((config::plain_no_decorate(), PlainDecorator::new()), run_generic),
        Some("rich") => go!((config::rich(), RichDecorator::new()), run_rich),
        Some("trivial") => go!((config::with_decorator(TrivialDecorator::new()), TrivialDecorator::new()), run_generic),
        _ => {
            let pd = ParamDeco::from_json(&deco["custom"]);
            // (deco_strings looks at a sub-block copy: hand it the decorator one level up)
            let mut up = pd.clone(); up.level -= 1;
            go!((config::with_decorator(pd), up), run_generic)
        }
    }
}

thread_local! { pub static LAST_PANIC: std::cell::RefCell<String> = std::cell::RefCell::new(String::new()); }
pub fn install_panic_hook() {
    std::panic::set_hook(Box::new(|info| {
        let loc = info.location().map(|l| format!("{}:{}", l.file(), l.line())).unwrap_or_default();
        let msg = if let Some(s) = info.payload().downcast_ref::<&str>() { s.to_string() }
                  else if let Some(s) = info.payload().downcast_ref::<String>() { s.clone() } else { String::new() };
        LAST_PANIC.with(|p| *p.borrow_mut() = format!("{} @ {}", msg, loc));
    }));
}
fn panic_msg(_p: Box<dyn std::any::Any + Send>) -> String { LAST_PANIC.with(|p| p.borrow().clone()) }

pub fn outcome_json(o: Outcome) -> Value {
    match o {
        Outcome::Ok(mut v) => { v["k"] = json!("ok"); v }
        Outcome::Narrow => json!({"k": "narrow", "lines": [], "sw": []}),
        Outcome::CssErr => json!({"k": "csserr", "lines": [], "sw": []}),
        Outcome::Fail(m) => json!({"k": "fail", "msg": m, "lines": [], "sw": []}),
        Outcome::Panic(m) => json!({"k": "panic", "msg": m, "lines": [], "sw": []}),
    }
}

pub fn html_bytes(run: &Value) -> Vec<u8> {
    // {"rep": {"unit": u, "n": n, "tail": t}} = n repetitions of u followed by t (deep nesting, written compactly)
    if let Some(rep) = run.get("rep") {
        let mut v = rep["unit"].as_str().unwrap_or("").as_bytes().repeat(rep["n"].as_u64().unwrap_or(0) as usize);
        v.extend_from_slice(rep["tail"].as_str().unwrap_or("").as_bytes());
        return v;
    }
    if let Some(h) = run.get("hx").and_then(|v| v.as_str()) {
        (0..h.len() / 2).map(|i| u8::from_str_radix(&h[2 * i..2 * i + 2], 16).unwrap_or(0)).collect()
    } else {
        run["html"].as_str().unwrap_or("").as_bytes().to_vec()
    }
}
