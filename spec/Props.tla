------------------------------- MODULE Props -------------------------------
(* The twenty property predicates.  A *case* is a record
     [id, doms, runs, meta]   with   run = [d, w, cfg, route, res]   and   res = [k, lines, sw]
   res.k \in {"ok","narrow","csserr","fail","panic"}; res.lines are sequences of cells (string
   routes) or items (lines routes); res.sw[i] is the string-level display width of line i.
   The same predicates are TLC invariants of the model-checking configurations (applied to the
   model's predicted result) and the acceptance condition of trace validation (applied to results
   observed from the real library). *)
EXTENDS Render, Css

Dom1(c, run) == c.doms[run.d]
MetaGet(c, f, dflt) == IF f \in DOMAIN c.meta THEN c.meta[f] ELSE dflt
IsOk(run) == run.res.k = "ok"
LineW(ln) == SumW(ln)
NoCtl(ln) == \A j \in 1..Len(ln) : ln[j][2] >= 0 \/ IsFrag(ln[j])
OutCells(res) == Concat([i \in 1..Len(res.lines) |-> Plain(NoFrags(res.lines[i]))])
RunsOf(c) == c.runs

(* ---- C02: no output line wider than the requested width ------------------------------- *)
P_C02_run(run) ==
  LET cf == CfgOf(run.cfg) IN
  (IsOk(run) /\ ~cf.overflow /\ cf.wraplinks /\ run.w >= 1) =>
     \* (by the widths of the characters, and by the width of the line as a string - except that a line into
     \*  which a C0 / DEL control character was copied from an attribute value has no defined string width)
     \A i \in 1..Len(run.res.lines) : LineW(run.res.lines[i]) <= run.w /\ (NoCtl(run.res.lines[i]) => run.res.sw[i] <= run.w)
P_C02(c) == \A i \in 1..Len(c.runs) : P_C02_run(c.runs[i])

(* ---- C03: document text preserved ------------------------------------------------------ *)
\* letters of each td/th without a nested table, in source order
CellTexts(dom) ==
  LET ns == NodesSeq(dom)
      cellsq == SelectSeq(ns, LAMBDA n : n.k = "e" /\ n.h /\ n.n \in {"td", "th"} /\ ~HasTable(n.c))
  IN [i \in 1..Len(cellsq) |-> Letters(FlowTextSeq(cellsq[i].c))]
\* (F: a filter on letter-code sequences - the identity for the property itself)
P_C03_gen(c, run, F(_)) ==
  IsOk(run) =>
    LET dom == Dom1(c, run)
        cf == CfgOf(run.cfg)
        v == F(Letters(FlowTextSeq(dom)))
        o == F(Letters(OutCells(run.res)))
    IN IF ~HasTable(dom) \/ cf.raw
       THEN o = v
       ELSE /\ BagOf(o) = BagOf(v)
            /\ LET ct == CellTexts(dom) IN \A i \in 1..Len(ct) : IsSubseq(F(ct[i]), o)
P_C03_run(c, run) == P_C03_gen(c, run, LAMBDA s : s)
P_C03(c) == \A i \in 1..Len(c.runs) : P_C03_run(c, c.runs[i])

(* ---- C04: paragraph wrapping is greedy word filling ------------------------------------- *)
\* case.meta = [pw |-> prefix width of the enclosing block (0 for a bare paragraph), m |-> max_wrap_width or -1]
\* decorators without inline affixes (rich / trivial) so that the paragraph's text is its flow text
StripPrefix(ln, pw) == IF Len(ln) >= pw THEN SubSeq(ln, pw + 1, Len(ln)) ELSE <<>>
P_C04_run(c, run) ==
  LET v == FlowTextSeq(Dom1(c, run))
      words == SplitWords(v)
      zeroOnly == \E i \in 1..Len(words) : SumW(words[i]) = 0
      pw == MetaGet(c, "pw", 0)
      m == MetaGet(c, "m", -1)
      avail == run.w - pw
      eff == IF m >= 0 THEN Min2(m, avail) ELSE avail
      g == Greedy(words, eff)
      obs == [i \in 1..Len(run.res.lines) |-> StripPrefix(Plain(NoFrags(run.res.lines[i])), pw)]
  IN (zeroOnly \/ eff < 1 \/ CfgOf(run.cfg).overflow) \/
     IF g.err THEN run.res.k = "narrow"
     ELSE /\ run.res.k = "ok"
          /\ obs = g.lines
P_C04(c) == \A i \in 1..Len(c.runs) : P_C04_run(c, c.runs[i])

(* ---- C12: preformatted text keeps its lines and spacing ---------------------------------- *)
\* the document holds exactly one <pre>; meta.pw = width of the prefix of the enclosing block (0 / 2)
RECURSIVE PreTokens(_)
PreTokensSeq(ns) == Concat([i \in 1..Len(ns) |-> PreTokens(ns[i])])
PreTokens(n) == IF n.k = "t" THEN n.s
                ELSE IF n.k # "e" THEN <<>>
                ELSE IF IsHtml(n, "br") THEN << <<NL, -1>> >>
                ELSE PreTokensSeq(n.c)
\* split at newlines; no-width cells other than tab/newline are dropped by the renderer
SplitLines(cells) ==
  LET r == FoldLeft(LAMBDA a, c : IF c[1] = NL THEN [ls |-> Append(a.ls, a.cur), cur |-> <<>>]
                                  ELSE IF CW(c) < 0 /\ c[1] # TAB THEN a
                                  ELSE [a EXCEPT !.cur = Append(@, c)],
                    [ls |-> <<>>, cur |-> <<>>], cells)
  IN Append(r.ls, r.cur)
\* tabs to 8-column stops (at least one space)
Expand(line) ==
  FoldLeft(LAMBDA a, c : IF c[1] = TAB THEN LET k == 8 - (SumW(a) % 8) IN a \o Rep(C2(32), k) ELSE Append(a, c), <<>>, line)
IsSpaceCell(c) == IsWs(c)
NonSpaceCodes(cells) == SelectSeq(Codes(cells), LAMBDA k : ~IsWsCode(k))
StripTrailingEmpty(ls) ==
  LET idx == {i \in 1..Len(ls) : TrimR(ls[i]) # <<>>} IN
  IF idx = {} THEN <<>> ELSE SubSeq(ls, 1, CHOOSE m \in idx : \A j \in idx : j <= m)
PreNode(dom) == LET ns == NodesSeq(dom) IN ns[CHOOSE i \in 1..Len(ns) : IsHtml(ns[i], "pre")]
\* pieces never span two source lines, in order, nothing lost.  Returns [ok, lab]: lab[k] says whether
\* output line k starts a source line ("first"), continues one ("cont") or holds no text ("blank")
Align(src, outs) ==
  LET n == Len(src)
      step(a, x) ==
        IF ~a.ok THEN a
        ELSE IF x = <<>> THEN [a EXCEPT !.lab = Append(@, "blank")]
        ELSE LET cand == {j \in a.i..n : (j = a.i /\ a.pos < Len(src[j])) \/ (j > a.i /\ Len(src[j]) > 0)} IN
             IF cand = {} THEN [a EXCEPT !.ok = FALSE]
             ELSE LET j == CHOOSE m \in cand : \A q \in cand : m <= q
                      p == IF j = a.i THEN a.pos ELSE 0 IN
                  IF p + Len(x) <= Len(src[j]) /\ SubSeq(src[j], p + 1, p + Len(x)) = x
                  THEN [i |-> j, pos |-> p + Len(x), ok |-> TRUE, lab |-> Append(a.lab, IF p > 0 THEN "cont"
                                                   ELSE IF a.lab = <<>> \/ Last(a.lab) # "blank" THEN "first"
                                                   ELSE "unknown")]   \* after a blank piece: cannot tell
                  ELSE [a EXCEPT !.ok = FALSE]
      fin == FoldLeft(step, [i |-> 1, pos |-> 0, ok |-> TRUE, lab |-> <<>>], outs)
  IN [ok |-> fin.ok /\ (n = 0 \/ (fin.pos = Len(src[fin.i]) /\ \A j \in (fin.i + 1)..n : src[j] = <<>>)), lab |-> fin.lab]
PTag(item) == IF Len(item) >= 3 /\ item[3] # <<>> /\ Last(item[3])[1] = "P" THEN Last(item[3])[2] ELSE -1
C12Parts(c, run) ==
    LET pw == MetaGet(c, "pw", 0)
        avail == run.w - pw
        src == SplitLines(PreTokensSeq(PreNode(Dom1(c, run)).c))
        exp == [i \in 1..Len(src) |-> Expand(src[i])]
        fits == \A i \in 1..Len(exp) : SumW(exp[i]) <= avail
        outItems == [i \in 1..Len(run.res.lines) |-> StripPrefix(NoFrags(run.res.lines[i]), pw)]
        out == [i \in 1..Len(outItems) |-> Plain(outItems[i])]
        rich == run.route \in {"lines", "staged_lines", "restaged_lines"} /\ run.cfg.deco = "rich"
        al == Align([i \in 1..Len(src) |-> NonSpaceCodes(src[i])], [i \in 1..Len(out) |-> NonSpaceCodes(out[i])])
        NonSp(items) == SelectSeq(items, LAMBDA x : ~IsWs(x))
    IN [ \* text: verbatim when it fits; otherwise conservation per source line and the width bound
         core |-> IF fits
                  THEN StripTrailingEmpty([i \in 1..Len(out) |-> TrimR(out[i])]) = StripTrailingEmpty([i \in 1..Len(exp) |-> TrimR(exp[i])])
                  ELSE /\ \A i \in 1..Len(out) : SumW(out[i]) <= avail \/ CfgOf(run.cfg).overflow
                       /\ al.ok,
         \* rich: every cell carries exactly one Preformat flag (last in its vector); nothing is flagged
         \* continuation when the block fits
         tagsWeak |-> rich =>
                  /\ \A i \in 1..Len(outItems) : \A j \in 1..Len(outItems[i]) : PTag(outItems[i][j]) \in {0, 1}
                  /\ fits => \A i \in 1..Len(outItems) : \A j \in 1..Len(outItems[i]) : PTag(outItems[i][j]) = 0
                  ,
         \* ... the piece that starts a source line is flagged Preformat(false) throughout and every
         \* character of an overflow piece Preformat(true)
         tagsStrict |-> (rich /\ ~fits /\ al.ok) =>
                  \A i \in 1..Len(outItems) :
                     LET it == NonSp(outItems[i]) IN
                     /\ al.lab[i] = "first" => \A j \in 1..Len(it) : PTag(it[j]) = 0
                     /\ al.lab[i] = "cont" => \A j \in 1..Len(it) : PTag(it[j]) = 1 ]
P_C12_run(c, run) == IsOk(run) => LET p == C12Parts(c, run) IN p.core /\ p.tagsWeak /\ p.tagsStrict
P_C12(c) == \A i \in 1..Len(c.runs) : P_C12_run(c, c.runs[i])

(* ---- C11: width errors; overflow always succeeds and is otherwise a no-op ------------------- *)
\* runs (tagged): "zero" = width 0, "base" = (d, w, o), "ovf" = (d, w, o + allow_width_overflow)
RunTagged(c, t) == LET idx == {i \in 1..Len(c.runs) : "tag" \in DOMAIN c.runs[i] /\ c.runs[i].tag = t} IN
                   IF idx = {} THEN [none |-> TRUE] ELSE c.runs[CHOOSE i \in idx : TRUE]
HasRun(r) == "none" \notin DOMAIN r
\* P(d): the largest total prefix width of a chain of nested blocks (from the DOM and the decorator strings)
RECURSIVE PrefixDepth(_, _)
PrefixDepthSeq(ns, ds) == FoldLeft(LAMBDA a, n : Max2(a, PrefixDepth(n, ds)), 0, ns)
\* (an upper bound: stray content directly in the list may become an item of its own)
OlItems(n) == Cardinality({i \in 1..Len(n.c) : n.c[i].k = "e" \/ (n.c[i].k = "t" /\ NonWs(n.c[i].s) # <<>>)})
PrefixDepth(n, ds) ==
  IF n.k # "e" \/ Ignored(n) THEN 0
  ELSE LET inner == PrefixDepthSeq(n.c, ds)
           own == CASE ~n.h -> 0
                    [] n.n = "blockquote" -> SumW(ds.quote)
                    [] n.n = "ul" -> SumW(ds.ul)
                    [] n.n = "dd" -> 2
                    [] n.n = "ol" -> LET big == HasAttr(n, "start") /\ Len(n.a.start.c) > 9
                                         st == IF HasAttr(n, "start") /\ ~big THEN ParseInt(n.a.start.c, TRUE, 1) ELSE 1
                                         k == OlItems(n) IN
                                     \* numbers beyond TLC's integers: over-approximate the marker width
                                     \* (all characters of the attribute, plus one for a carry)
                                     (IF big THEN Len(n.a.start.c) + 1
                                      ELSE Max2(Len(NumCells(st)), Len(NumCells(st + Max2(k, 1) - 1)))) + SumW(ds.olsuf)
                    [] n.n \in {"h1", "h2", "h3", "h4", "h5", "h6"} ->
                         SumW(ds.hdr[CHOOSE l \in 1..6 : n.n = <<"h1", "h2", "h3", "h4", "h5", "h6">>[l]])
                    [] OTHER -> 0
       IN own + inner
\* (strict = FALSE leaves lines that hold U+FE0F out of the string-width clause: used only to classify the
\*  recorded finding emoji-presentation-sequence, never as the verdict)
HasCode(ln, k) == \E j \in 1..Len(ln) : ~IsFrag(ln[j]) /\ ln[j][1] = k
P_C11x(c, strict) ==
  LET z == RunTagged(c, "zero")  b == RunTagged(c, "base")  o == RunTagged(c, "ovf") IN
  /\ HasRun(z) => z.res.k = "narrow"
  /\ (HasRun(o) /\ o.w >= 1) => o.res.k = "ok"
  /\ (HasRun(b) /\ HasRun(o) /\ b.res.k = "ok") => (o.res.k = "ok" /\ o.res.lines = b.res.lines)
  /\ (HasRun(o) /\ o.res.k = "ok" /\ o.w >= 1 /\ ~HasTable(Dom1(c, o)) /\ CfgOf(o.cfg).wraplinks) =>
        LET cf == CfgOf(o.cfg)
            bound == Max2(o.w, PrefixDepthSeq(Dom1(c, o), o.cfg.ds) + Max2(cf.minwrap, 5)) IN
        \A i \in 1..Len(o.res.lines) : LineW(o.res.lines[i]) <= bound
                                        /\ ((NoCtl(o.res.lines[i]) /\ (strict \/ ~HasCode(o.res.lines[i], 65039))) => o.res.sw[i] <= bound)
P_C11(c) == P_C11x(c, TRUE)

(* ---- C13: output does not depend on the source formatting of collapsible whitespace -------- *)
\* runs 1 and 2: the document and its rewrite r(d), same width and configuration
SameResult(a, b) == a.res.k = b.res.k /\ a.res.lines = b.res.lines
\* (fragment markers are left out of this comparison: where the marker of an id *without* visible content goes,
\*  or whether it appears at all, is not fixed - C14 allows 0 or 1 - and depends on the white space around it;
\*  the markers of ids with content are pinned to their letters by C14 in each document on its own)
SameText(a, b) == a.res.k = b.res.k /\ [i \in 1..Len(a.res.lines) |-> NoFrags(a.res.lines[i])] = [i \in 1..Len(b.res.lines) |-> NoFrags(b.res.lines[i])]
P_C13(c) == \A i \in 2..Len(c.runs) : SameText(c.runs[1], c.runs[i])

(* ---- C15: layout options are orthogonal and do only what they say --------------------------- *)
\* runs: 1 = base configuration, 2 = base + option meta.opt (argument meta.arg); meta.applies says
\* whether the document has anything the option applies to (computed by TLA+ below, not trusted)
LineCodes(res) == [i \in 1..Len(res.lines) |-> Codes(NoFrags(res.lines[i]))]
DelCode(codes, k) == SelectSeq(codes, LAMBDA x : x # k)
RStripCodes(codes) == LET idx == {i \in 1..Len(codes) : codes[i] # 32} IN
                      IF idx = {} THEN <<>> ELSE SubSeq(codes, 1, CHOOSE m \in idx : \A j \in idx : j <= m)
AllOut(res) == Concat([i \in 1..Len(res.lines) |-> Plain(NoFrags(res.lines[i]))])
HasBox(res) == \E i \in 1..Len(res.lines) : \E j \in 1..Len(res.lines[i]) : IsBoxCode(res.lines[i][j][1])
\* a reference "[digits]" somewhere in a line
HasRef(codes) == \E i \in 1..Len(codes) : codes[i] = 91 /\
                   \E j \in (i + 2)..Len(codes) : codes[j] = 93 /\ \A k \in (i + 1)..(j - 1) : codes[k] \in 48..57
HasLinkEl(dom) == LET ns == NodesSeq(dom) IN \E i \in 1..Len(ns) : IsHtml(ns[i], "a") /\ HasAttr(ns[i], "href")
HasNestedBlock(dom) == HasElem(dom, {"ul", "ol", "blockquote", "dl", "dd", "table", "h1", "h2", "h3", "h4", "h5", "h6"})
P_C15(c) ==
  "opt" \notin DOMAIN c.meta \/
  LET a == c.runs[1]  b == c.runs[2]  opt == c.meta.opt  dom == Dom1(c, a)
      bothOk == a.res.k = "ok" /\ b.res.k = "ok" IN
  CASE opt = "max_wrap" ->
         /\ c.meta.arg >= a.w => SameResult(a, b)
         /\ (b.res.k = "ok" /\ ~HasTable(dom) /\ ~CfgOf(b.cfg).footnotes /\ ~CfgOf(b.cfg).overflow) =>
               \A i \in 1..Len(b.res.lines) : b.res.sw[i] <= PrefixDepthSeq(dom, b.cfg.ds) + c.meta.arg
    [] opt = "pad" ->
         /\ a.res.k = b.res.k
         /\ bothOk => [i \in 1..Len(a.res.lines) |-> RStripCodes(LineCodes(a.res)[i])] = [i \in 1..Len(b.res.lines) |-> RStripCodes(LineCodes(b.res)[i])]
    [] opt = "strike" ->     \* run 1 has unicode_strikeout(true), run 2 (false)
         /\ a.res.k = b.res.k
         /\ bothOk => [i \in 1..Len(a.res.lines) |-> DelCode(LineCodes(a.res)[i], STRIKE)] = LineCodes(b.res)
         /\ ~HasElem(dom, {"s", "del"}) => SameResult(a, b)
    [] opt \in {"noborders", "raw"} ->
         /\ b.res.k = "ok" => ~HasBox(b.res)
         /\ bothOk => BagOf(Letters(AllOut(a.res))) = BagOf(Letters(AllOut(b.res)))
         /\ (opt = "raw" /\ b.res.k = "ok") => Letters(AllOut(b.res)) = Letters(FlowTextSeq(dom))
         /\ ~HasTable(dom) => SameResult(a, b)
    [] opt = "footnotes" ->  \* run 1 has link_footnotes(true), run 2 (false)
         /\ bothOk => IF HasTable(dom) /\ ~CfgOf(a.cfg).raw
                       THEN BagOf(Letters(AllOut(a.res))) = BagOf(Letters(AllOut(b.res)))
                       ELSE Letters(AllOut(a.res)) = Letters(AllOut(b.res))
         /\ b.res.k = "ok" => \A i \in 1..Len(b.res.lines) : ~HasRef(LineCodes(b.res)[i])
         /\ ~HasLinkEl(dom) => SameResult(a, b)
    \* raw_mode(false) after no_table_borders(): no option at all, and the borders stay off
    [] opt = "rawoff" -> SameResult(a, b) /\ (b.res.k = "ok" => ~HasBox(b.res))
    \* the same builder calls in a different order
    [] opt = "perm" -> SameResult(a, b)
    [] opt = "nolinkwrap" -> (~HasLinkEl(dom) \/ ~CfgOf(a.cfg).footnotes) => SameResult(a, b)
    [] opt = "min_wrap" -> ~HasNestedBlock(dom) => SameResult(a, b)
    [] OTHER -> FALSE

(* ---- C14: every id with visible content yields one fragment marker at its content ------------ *)
\* run 1: lines route with the ids; runs 2, 3: string route with and without the ids
FragOf(n) == FragName(n)
\* [name, before, vis]: for every element carrying an id / anchor name (outside ignored subtrees):
\* the number of letters of V(d) preceding it and whether it contains a visible character
RECURSIVE IdInfo(_, _)
IdInfoSeq(ns, before) ==
  FoldLeft(LAMBDA a, n : LET r == IdInfo(n, a.before) IN [before |-> r.before, out |-> a.out \o r.out],
           [before |-> before, out |-> <<>>], ns)
IdInfo(n, before) ==
  IF n.k = "t" THEN [before |-> before + Len(Letters(n.s)), out |-> <<>>]
  ELSE IF n.k # "e" THEN [before |-> before, out |-> <<>>]
  ELSE LET inner == IF Ignored(n) THEN [before |-> before, out |-> <<>>]
                    ELSE IF IsHtml(n, "img") THEN [before |-> before + Len(Letters(FlowText(n))), out |-> <<>>]
                    ELSE IdInfoSeq(n.c, before)
           fr == FragOf(n)
       IN IF IsNull(fr) THEN inner
          ELSE [before |-> inner.before,
                out |-> << [name |-> fr.name, before |-> before, vis |-> NonWs(FlowText(n)) # <<>>,
                            ign |-> Ignored(n), el |-> n.n] >> \o inner.out]
\* markers of the output in reading order with the number of letters emitted before each
MarkersOf(res) ==
  FoldLeft(LAMBDA a, x : IF IsFrag(x) THEN [a EXCEPT !.out = Append(@, [name |-> x[3][1][2], before |-> a.n])]
                         ELSE IF IsLetterCode(x[1]) THEN [a EXCEPT !.n = @ + 1] ELSE a,
           [n |-> 0, out |-> <<>>], Concat(res.lines)).out
NestedTables(dom) == LET ns == NodesSeq(dom) IN \E i \in 1..Len(ns) : IsHtml(ns[i], "table") /\ HasTable(ns[i].c)
P_C14(c) ==
  (c.runs[1].route \notin {"lines", "staged_lines", "restaged_lines"}) \/
  LET a == c.runs[1]
      dom == Dom1(c, a)
      ids == IdInfoSeq(dom, 0).out
      ms == MarkersOf(a.res)
      Count(nm) == Cardinality({i \in 1..Len(ms) : ms[i].name = nm})
      tableFree == ~HasTable(dom) IN
  /\ IsOk(a) =>
       \* exactly one marker per id with visible content, never more than one per id, none invented
       \* (stated for multisets, so that documents with repeated ids are covered too)
       /\ \A i \in 1..Len(ids) :
             LET nm == ids[i].name
                 nvis == Cardinality({j \in 1..Len(ids) : ids[j].name = nm /\ ids[j].vis})
                 nall == Cardinality({j \in 1..Len(ids) : ids[j].name = nm}) IN
             nvis <= Count(nm) /\ Count(nm) <= nall
       /\ \A j \in 1..Len(ms) : \E i \in 1..Len(ids) : ids[i].name = ms[j].name
       \* position: after all text preceding the element, not after its first visible character
       /\ tableFree => \A i \in 1..Len(ids) : \A j \in 1..Len(ms) :
                           (ids[i].vis /\ ms[j].name = ids[i].name
                            /\ Cardinality({q \in 1..Len(ids) : ids[q].name = ids[i].name}) = 1) => ms[j].before = ids[i].before
       \* a table row starts on a line of its own whatever the layout: the marker of a <tr> stands before the
       \* first character of the row in reading order (tables inside table cells are read interleaved: left out)
       /\ (~tableFree /\ ~NestedTables(dom)) => \A i \in 1..Len(ids) : \A j \in 1..Len(ms) :
                           (ids[i].vis /\ ids[i].el = "tr" /\ ms[j].name = ids[i].name
                            /\ Cardinality({q \in 1..Len(ids) : ids[q].name = ids[i].name}) = 1) => ms[j].before = ids[i].before
       \* document order (outside tables): the markers of the ids with visible content appear in the
       \* order of their elements (pre-order), also when several sit at the same place
       /\ (tableFree /\ \A i, j \in 1..Len(ids) : i # j => ids[i].name # ids[j].name) =>
             LET vis == SelectSeq(ids, LAMBDA x : x.vis)
                 visNames == {vis[i].name : i \in 1..Len(vis)}
                 obsNames == SelectSeq([j \in 1..Len(ms) |-> ms[j].name], LAMBDA nm : nm \in visNames) IN
             obsNames = [i \in 1..Len(vis) |-> vis[i].name]
       \* markers carry no width
       /\ \A i \in 1..Len(a.res.lines) : a.res.sw[i] = SumW(NoFrags(a.res.lines[i]))
  \* the text does not depend on the ids
  /\ Len(c.runs) >= 3 => SameResult(c.runs[2], c.runs[3])

(* ---- C09: rich annotations mirror element nesting ---------------------------------------------- *)
\* run 1: rich lines route; run 2 (optional): rich string route with the same configuration
AnnOf(n) ==
  CASE ~n.h -> <<>>
    [] n.n \in {"em", "i", "ins", "dt"} -> << <<"E">> >>
    [] n.n = "strong" -> << <<"S">> >>
    [] n.n \in {"s", "del"} -> << <<"K">> >>
    [] n.n = "code" -> << <<"C">> >>
    \* (a link without any content is not rendered as a link)
    [] n.n = "a" /\ HasAttr(n, "href") /\ NonWs(FlowText(n)) # <<>> -> << <<"L", n.a.href.s>> >>
    [] n.n = "sup" -> << <<"D">> >>
    [] OTHER -> <<>>
\* letters of V(d) paired with the annotation vector of their ancestors (outermost first) and the
\* "inside <pre>" flag: sequence of <<code, tags, inpre>>
RECURSIVE AnnLetters(_, _, _)
AnnLettersSeq(ns, anc, pre) == Concat([i \in 1..Len(ns) |-> AnnLetters(ns[i], anc, pre)])
AnnLetters(n, anc, pre) ==
  IF n.k = "t" THEN LET ls == Letters(n.s) IN [i \in 1..Len(ls) |-> <<ls[i], anc, pre>>]
  ELSE IF n.k # "e" \/ Ignored(n) THEN <<>>
  ELSE IF IsHtml(n, "img")
       THEN (IF ImgVisible(n) THEN LET ls == Letters(n.a.alt) IN [i \in 1..Len(ls) |-> <<ls[i], Append(anc, <<"I", n.a.src>>), pre>>] ELSE <<>>)
  ELSE AnnLettersSeq(n.c, anc \o AnnOf(n), pre \/ IsHtml(n, "pre"))
NoP(tags) == SelectSeq(tags, LAMBDA t : t[1] \notin {"P", "Fg", "Bg"})      \* (colours: see P_C09 below / C19)
HasP(tags) == \E i \in 1..Len(tags) : tags[i][1] = "P"
OutAnnLetters(res) ==
  LET items == SelectSeq(Concat(res.lines), LAMBDA x : ~IsFrag(x) /\ IsLetterCode(x[1])) IN
  [i \in 1..Len(items) |-> <<items[i][1], NoP(items[i][3]), HasP(items[i][3])>>]
\* every annotation vector that some node of the document has (what prefixes, padding, borders and
\* white space may carry)
RECURSIVE AncVecs(_, _)
AncVecsSeq(ns, anc) == UNION {AncVecs(ns[i], anc) : i \in 1..Len(ns)}
AncVecs(n, anc) == IF n.k # "e" \/ Ignored(n) THEN {anc}
                   ELSE IF IsHtml(n, "img") THEN {anc, Append(anc, <<"I", IF HasAttr(n, "src") THEN n.a.src ELSE "">>)}
                   ELSE {anc, anc \o AnnOf(n)} \cup AncVecsSeq(n.c, anc \o AnnOf(n))
IsRichLines(run) == run.route \in {"lines", "staged_lines", "restaged_lines"} /\ run.cfg.deco = "rich"
\* the continuation flag of preformatted text: a letter that is the very first character of a source
\* line of a <pre> (directly after the start tag, or directly after a newline, possibly inside inline
\* elements that open there) starts a piece and so carries Preformat(false).  One boolean per letter
\* of V(d); anything the clause is not sure about is FALSE (unconstrained).
TransparentInline == {"em", "i", "strong", "s", "del", "code", "span", "a", "ins"}
RECURSIVE LineStart(_, _, _)
LineStartSeq(ns, pre, at) ==
  FoldLeft(LAMBDA acc, n : LET r == LineStart(n, pre, acc.at) IN [out |-> acc.out \o r.out, at |-> r.at],
           [out |-> <<>>, at |-> at], ns)
LineStart(n, pre, at) ==
  IF n.k = "t"
  THEN FoldLeft(LAMBDA acc, ch : IF IsLetterCode(ch[1]) THEN [out |-> Append(acc.out, pre /\ acc.at), at |-> FALSE]
                                 ELSE [acc EXCEPT !.at = (ch[1] = NL)],
                [out |-> <<>>, at |-> at], n.s)
  ELSE IF n.k # "e" THEN [out |-> <<>>, at |-> at]
  ELSE IF Ignored(n) THEN [out |-> <<>>, at |-> FALSE]
  ELSE IF IsHtml(n, "img") THEN [out |-> IF ImgVisible(n) THEN Rep(FALSE, Len(Letters(n.a.alt))) ELSE <<>>, at |-> FALSE]
  ELSE IF IsHtml(n, "pre") THEN [out |-> LineStartSeq(n.c, TRUE, TRUE).out, at |-> FALSE]
  ELSE IF n.h /\ n.n \in TransparentInline THEN LineStartSeq(n.c, pre, at)
  ELSE [out |-> LineStartSeq(n.c, pre, FALSE).out, at |-> FALSE]
PVal(tags) == LET idx == {i \in 1..Len(tags) : tags[i][1] = "P"} IN
              IF idx = {} THEN -1 ELSE tags[CHOOSE m \in idx : \A q \in idx : q <= m][2]
P_C09_nesting(c) ==
  ~IsRichLines(c.runs[1]) \/
  LET a == c.runs[1]
      dom == Dom1(c, a)
      exp == AnnLettersSeq(dom, <<>>, FALSE)
      obs == OutAnnLetters(a.res)
      \* (the footnote block is tagged with the decorator's default annotation)
      valid == {<<>>, << <<"D">> >>} \cup AncVecsSeq(dom, <<>>) IN
  /\ IsOk(a) =>
       /\ IF HasTable(dom) /\ ~CfgOf(a.cfg).raw THEN BagOf(obs) = BagOf(exp) ELSE obs = exp
       \* no annotation leaks: whatever a cell carries is the vector of some node of the document
       /\ \A i \in 1..Len(a.res.lines) : \A j \in 1..Len(a.res.lines[i]) :
             LET x == a.res.lines[i][j] IN IsFrag(x) \/ NoP(x[3]) \in valid
       \* the first character of a preformatted source line is never flagged as a continuation
       /\ (~HasTable(dom) /\ ~CfgOf(a.cfg).overflow) =>
             LET st == LineStartSeq(dom, FALSE, FALSE).out
                 items == SelectSeq(Concat(a.res.lines), LAMBDA x : ~IsFrag(x) /\ IsLetterCode(x[1])) IN
             Len(st) = Len(items) => \A i \in 1..Len(st) : st[i] => PVal(items[i][3]) = 0
       \* the blanks that pad_block_width appends after the text of a line belong to the block, not to an inline
       \* element that happens to be open where the line was wrapped (lines of <pre> keep their own trailing blanks)
       /\ (CfgOf(a.cfg).pad /\ ~HasTable(dom)) =>
             \A i \in 1..Len(a.res.lines) :
                LET ln == NoFrags(a.res.lines[i])
                    nonsp == {j \in 1..Len(ln) : ln[j][1] # 32}
                    last == IF nonsp = {} THEN 0 ELSE CHOOSE m \in nonsp : \A q \in nonsp : q <= m IN
                (\A j \in 1..Len(ln) : PVal(ln[j][3]) = -1) =>
                   \A j \in (last + 1)..Len(ln) : \A t \in 1..Len(ln[j][3]) : ln[j][3][t][1] \notin {"E", "S", "K", "C", "L", "I"}
  /\ Len(c.runs) >= 2 =>
       LET b == c.runs[2] IN
       /\ a.res.k = b.res.k
       /\ IsOk(a) => [i \in 1..Len(a.res.lines) |-> Plain(NoFrags(a.res.lines[i]))] = b.res.lines

(* ---- C08: link footnotes are numbered consistently with their references ------------------------ *)
\* rendered links of the document in order: a[href] with visible content; [href, endpos] where endpos
\* is the number of letters of V(d) up to the end of the link
\* (inner = number of rendered links nested inside this one - links nest through a table cell.  A reference follows the
\*  end of its link, so the references appear in the post-order of the link tree: PostIdx(links, k) is the place of link
\*  k in that order, = k when no link nests)
PostIdx(links, k) == k + links[k].inner - Cardinality({i \in 1..(k - 1) : i + links[i].inner >= k})
RECURSIVE LinkInfo(_, _)
LinkInfoSeq(ns, before) ==
  FoldLeft(LAMBDA a, n : LET r == LinkInfo(n, a.before) IN [before |-> r.before, out |-> a.out \o r.out],
           [before |-> before, out |-> <<>>], ns)
LinkInfo(n, before) ==
  IF n.k = "t" THEN [before |-> before + Len(Letters(n.s)), out |-> <<>>]
  ELSE IF n.k # "e" \/ Ignored(n) THEN [before |-> before, out |-> <<>>]
  ELSE IF IsHtml(n, "img") THEN [before |-> before + Len(Letters(FlowText(n))), out |-> <<>>]
  ELSE LET inner == LinkInfoSeq(n.c, before) IN
       IF IsHtml(n, "a") /\ HasAttr(n, "href") /\ NonWs(FlowText(n)) # <<>>
       THEN [before |-> inner.before, out |-> << [href |-> n.a.href.c, endpos |-> inner.before, inner |-> Len(inner.out)] >> \o inner.out]
       ELSE inner
\* a textless link that still gets numbered because decoration pseudo-content fills it (known finding)
DecoratedEmptyLink(dom, cf) ==
  cf.decorate /\ LET ns == NodesSeq(dom) IN
                 \E i \in 1..Len(ns) : IsHtml(ns[i], "a") /\ HasAttr(ns[i], "href") /\ NonWs(FlowText(ns[i])) = <<>>
                                         /\ HasElem(ns[i].c, {"em", "strong", "code", "dt"})
\* references "[k]" of a line: sequence of [k, at] (at = index of the opening bracket)
RefsIn(codes) ==
  LET opens == SelectSeq([i \in 1..Len(codes) |-> i], LAMBDA i : codes[i] = 91)
      closeOf(i) == LET js == {j \in (i + 2)..Len(codes) : codes[j] = 93 /\ \A k \in (i + 1)..(j - 1) : codes[k] \in 48..57} IN
                    IF js = {} THEN 0 ELSE CHOOSE j \in js : \A q \in js : j <= q
      val(i) == FoldLeft(LAMBDA acc, k : acc * 10 + (codes[k] - 48), 0, [k \in 1..(closeOf(i) - i - 1) |-> i + k])
      good == SelectSeq(opens, LAMBDA i : closeOf(i) # 0 /\ closeOf(i) - i - 1 <= 6)
  IN [m \in 1..Len(good) |-> [k |-> val(good[m]), at |-> good[m]]]
\* references of a sequence of lines, tolerating a reference that was hard-wrapped across two lines
\* ("...[1" / "<prefix>2]"): returns [k, before] with before = letters preceding the reference
DigitsAtEnd(codes) == LET idx == {i \in 0..Len(codes) : \A j \in (i + 1)..Len(codes) : codes[j] \in 48..57} IN
                      SubSeq(codes, (CHOOSE i \in idx : \A q \in idx : i <= q) + 1, Len(codes))
NumOf(ds) == FoldLeft(LAMBDA acc, d : acc * 10 + (d - 48), 0, ds)
RefsOfLines(lines) ==
  LET step(a, codes) ==
        LET whole == RefsIn(codes)
            \* completion of a reference opened on the previous line: first "]" with only digits between
            \* it and the preceding non-digit
            closeIdx == {j \in 1..Len(codes) : codes[j] = 93}
            firstClose == IF closeIdx = {} THEN 0 ELSE CHOOSE j \in closeIdx : \A q \in closeIdx : j <= q
            tailDigits == IF firstClose = 0 THEN <<>> ELSE DigitsAtEnd(SubSeq(codes, 1, firstClose - 1))
            completes == a.open /\ firstClose # 0 /\ (\A m \in 1..Len(whole) : whole[m].at > firstClose)
                         /\ Len(a.part) + Len(tailDigits) >= 1
            lettersUpTo(i) == Len(SelectSeq(SubSeq(codes, 1, i), IsLetterCode))
            found0 == IF completes THEN << [k |-> NumOf(a.part \o tailDigits), before |-> a.openBefore] >> ELSE <<>>
            found1 == [m \in 1..Len(whole) |-> [k |-> whole[m].k, before |-> a.letters + lettersUpTo(whole[m].at)]]
            \* a reference left open at the end of this line: "[" followed only by digits
            ends == DigitsAtEnd(codes)
            opensAt == Len(codes) - Len(ends)
            opens == opensAt >= 1 /\ codes[opensAt] = 91 /\ Len(ends) <= 6
        IN [refs |-> a.refs \o found0 \o found1, letters |-> a.letters + lettersUpTo(Len(codes)),
            open |-> opens, part |-> IF opens THEN ends ELSE <<>>,
            openBefore |-> IF opens THEN a.letters + lettersUpTo(opensAt) ELSE 0,
            \* an opened reference that the next line did not complete: cut into three or more pieces
            unmatched |-> a.unmatched + (IF a.open /\ ~completes THEN 1 ELSE 0)]
      fin == FoldLeft(step, [refs |-> <<>>, letters |-> 0, open |-> FALSE, part |-> <<>>, openBefore |-> 0, unmatched |-> 0], lines)
  IN [refs |-> fin.refs, unmatched |-> fin.unmatched + (IF fin.open THEN 1 ELSE 0)]
P_C08(c) ==
  \A ri \in 1..Len(c.runs) :
    LET run == c.runs[ri]
        dom == Dom1(c, run)
        cf == Cf(run.cfg)
        links == LinkInfoSeq(dom, 0).out
        n == Len(links)
        \* expected footnote block, laid out by the specification's fmt_links
        blk == IF cf.footnotes /\ n > 0
               THEN FoldLeft(LAMBDA r, k : FmtLink(r, Footnote(k, links[k].href), <<>>, cf), NewSub(run.w, <<>>), [k \in 1..n |-> k]).lines
               ELSE <<>>
        nb == Len(blk)
        outl == [i \in 1..Len(run.res.lines) |-> Plain(NoFrags(run.res.lines[i]))]
        nbody == Len(outl) - nb
        body == SubSeq(outl, 1, nbody)
        \* (combining strike marks may sit between the characters of a reference inside <s>/<del>)
        NoStrike(ln) == SelectSeq(Codes(ln), LAMBDA k : k # STRIKE)
        parsed == RefsOfLines([i \in 1..nbody |-> NoStrike(body[i])])
        refs == parsed.refs
    IN (IsOk(run) /\ run.w >= 1) =>
       IF ~cf.footnotes
       THEN RefsOfLines([i \in 1..Len(outl) |-> SelectSeq(Codes(outl[i]), LAMBDA k : k # STRIKE)]).refs = <<>>
       ELSE /\ nbody >= 0
            \* the block: exactly the n entries, in order, after a blank line
            /\ [i \in 1..nb |-> Plain(blk[i].c)] = SubSeq(outl, nbody + 1, Len(outl))
            /\ (nb > 0 /\ nbody > 0) => outl[nbody] = <<>>
            \* the references in the text are 1..n, each once, in increasing order of appearance
            \* (per cell inside side-by-side tables: only the multiset is checked there)
            \* (inside side-by-side cells a reference may be cut by the cell boundary, so there only:
            \*  every complete reference is one of 1..n and none occurs twice)
            \* (only the references that stand complete on one line: two cells of a row may each cut one on the
            \*  same line, and the pieces of different cells interleave)
            /\ IF HasTable(dom) /\ ~cf.raw
               THEN LET whole == Concat([i \in 1..nbody |-> RefsIn(NoStrike(body[i]))]) IN
                    /\ \A i \in 1..Len(whole) : whole[i].k \in 1..n
                    /\ \A i, j \in 1..Len(whole) : i # j => whole[i].k # whole[j].k
               ELSE \* the readable references are numbers of 1..n in the order in which their links end (increasing
                    \* when no link nests in another); one may be missing only for
                    \* each reference that hard wrapping cut into three or more pieces
                    /\ \A i \in 1..Len(refs) : refs[i].k \in 1..n
                    /\ \A i \in 1..(Len(refs) - 1) : PostIdx(links, refs[i].k) < PostIdx(links, refs[i + 1].k)
                    /\ n - Len(refs) <= parsed.unmatched
                    \* and reference k follows the text of link k: no letter between the end of the link
                    \* and its reference
                    /\ \A i \in 1..Len(refs) : refs[i].before = links[refs[i].k].endpos

(* ---- C07: lists, quotes, headings prefix every line; ordered items count from start ------------- *)
\* run 1: a document holding exactly one block B (meta.kind, meta.start for ol) at width w;
\* runs 2..: the content of each item of B as a stand-alone document at width w - prefix width
P_C07(c) ==
  "kind" \notin DOMAIN c.meta \/
  LET a == c.runs[1]
      ds == a.cfg.ds
      kind == c.meta.kind
      k == Len(c.runs) - 1
      items == [i \in 1..k |-> c.runs[i + 1]]
      allOk == IsOk(a) /\ \A i \in 1..k : IsOk(items[i])
      pl(res) == [i \in 1..Len(res.lines) |-> Plain(NoFrags(res.lines[i]))]
      start == MetaGet(c, "start", 1)
      cfp == Cf(a.cfg)
      olw == Max2(SumW(OlPrefix(cfp, start)), SumW(OlPrefix(cfp, start + Max2(k, 1) - 1)))
      Prefixed(i) ==
        LET ls == pl(items[i].res) IN
        [j \in 1..Len(ls) |->
           (CASE kind = "blockquote" -> ds.quote
              [] kind = "dd" -> <<C2(32), C2(32)>>
              [] kind \in {"h1", "h2", "h3", "h4", "h5", "h6"} -> ds.hdr[CHOOSE l \in 1..6 : kind = <<"h1", "h2", "h3", "h4", "h5", "h6">>[l]]
              [] kind = "ul" -> IF j = 1 THEN ds.ul ELSE Rep(C2(32), SumW(ds.ul))
              [] kind = "ol" -> IF j = 1 THEN LET p == OlPrefix(cfp, start + i - 1) IN p \o Rep(C2(32), olw - SumW(p))
                                ELSE Rep(C2(32), olw)
              [] OTHER -> <<>>) \o ls[j]]
  IN allOk => pl(a.res) = Concat([i \in 1..k |-> Prefixed(i)])

(* ---- C05: table borders form a consistent box drawing ------------------------------------------ *)
\* the document is one regular table (plain decorator, borders on); the output is read as a grid of
\* display columns: a wide character occupies two positions (the second holds CONT), a zero-width
\* character none
CONT == -7
GridLine(ln) == IF \A i \in 1..Len(ln) : ln[i][2] = 1 THEN Codes(ln)      \* fast path: all cells one column wide
                ELSE FoldLeft(LAMBDA acc, c : IF CWp(c) = 0 THEN acc ELSE IF CWp(c) = 2 THEN acc \o <<c[1], CONT>> ELSE Append(acc, c[1]),
                              <<>>, NoFrags(ln))
GridOf(res) == [y \in 1..Len(res.lines) |-> GridLine(res.lines[y])]
At(g, y, x) == IF y >= 1 /\ y <= Len(g) /\ x >= 1 /\ x <= Len(g[y]) THEN g[y][x] ELSE 0
IsRuleLine(gl) == gl # <<>> /\ \A x \in 1..Len(gl) : gl[x] \in RuleCodes
IsSlashLine(gl) == gl # <<>> /\ \A x \in 1..Len(gl) : gl[x] = GV
BarCols(gl) == {x \in 1..Len(gl) : gl[x] = BAR}
\* (d) every rule glyph has a down-stem iff a bar stands directly below, an up-stem iff directly above
JunctionsOK(g) ==
  \A y \in 1..Len(g) : \A x \in 1..Len(g[y]) :
     g[y][x] \in RuleCodes =>
        /\ (g[y][x] \in {GB, GX}) = (At(g, y + 1, x) = BAR)
        /\ (g[y][x] \in {GA, GX}) = (At(g, y - 1, x) = BAR)
TableNode(dom) == LET ns == NodesSeq(dom) IN ns[CHOOSE i \in 1..Len(ns) : IsHtml(ns[i], "table")]
\* text width of a cell when laid out on one line (whitespace collapsed)
OneLineW(n) == LET ws == SplitWords(FlowTextSeq(n.c)) IN
               IF ws = <<>> THEN 0 ELSE SumSeq([i \in 1..Len(ws) |-> SumW(ws[i])]) + Len(ws) - 1
RowsOf(t) == LET secs == SelectSeq(t.c, LAMBDA x : x.k = "e" /\ x.n \in {"thead", "tbody"})
             IN Concat([i \in 1..Len(secs) |-> SelectSeq(secs[i].c, LAMBDA x : x.k = "e" /\ x.n = "tr")])
CellsOf(tr) == SelectSeq(tr.c, LAMBDA x : x.k = "e" /\ x.n \in {"td", "th"})
HasSpan(cell) == HasAttr(cell, "colspan") /\ ParseInt(cell.a.colspan.c, FALSE, 1) # 1
P_C05_run(c, run) ==
  (IsOk(run) /\ run.res.lines # <<>>) =>
    LET g == GridOf(run.res)
        n == Len(g)
        t == TableNode(Dom1(c, run))
        rows == RowsOf(t)
        nested == HasTable(t.c)
        \* stacked rows are recognised by their "/" separators; a table whose rows hold a single cell
        \* has none, so without any bar ragged lines are read as the stacked layout too
        noBars == \A y \in 1..n : BarCols(g[y]) = {}
        stacked == (\E y \in 1..n : IsSlashLine(g[y])) \/ (noBars /\ \E y \in 1..n : Len(g[y]) # Len(g[1]))
        rules == {y \in 1..n : IsRuleLine(g[y])}
        noSpans == \A i \in 1..Len(rows) : \A j \in 1..Len(CellsOf(rows[i])) : ~HasSpan(CellsOf(rows[i])[j])
        ncols == IF rows = <<>> THEN 0 ELSE Len(CellsOf(rows[1]))
        colW(j) == FoldLeft(LAMBDA a, r : Max2(a, IF j <= Len(CellsOf(r)) THEN OneLineW(CellsOf(r)[j]) ELSE 0), 0, rows)
        fitsOneLine == noSpans /\ ~nested /\ ncols >= 1 /\ SumSeq([j \in 1..ncols |-> colW(j)]) + ncols - 1 <= run.w
    IN IF stacked
       THEN \* (e) stacked fallback: full-width rules and separators, every cell line within the width
            /\ IsRuleLine(g[1]) /\ IsRuleLine(g[n])
            \* (a nested table that is itself stacked draws its separators at the width of its cell)
            /\ ~nested => \A y \in 1..n : (IsSlashLine(g[y]) \/ IsRuleLine(g[y])) => Len(g[y]) = run.w
            /\ \A y \in 1..n : Len(g[y]) <= run.w
            /\ ~fitsOneLine
       ELSE /\ \A y \in 1..n : Len(g[y]) = Len(g[1])                       \* (a)
            /\ IsRuleLine(g[1]) /\ IsRuleLine(g[n])                           \* (b)
            /\ ~nested => \A y \in 1..(n - 1) :                               \* (c) bars aligned within a band
                             (y \notin rules /\ (y + 1) \notin rules) => BarCols(g[y]) = BarCols(g[y + 1])
            /\ JunctionsOK(g)                                                   \* (d)
P_C05(c) == \A i \in 1..Len(c.runs) : P_C05_run(c, c.runs[i])

(* ---- C06: table cells stay in their columns, in order; columns with text get space ------------- *)
\* meta.cells = sequence of [r, c0, c1, code, n]: the cell in source row r covering grid columns
\* c0..c1 is filled with n copies of the unique character `code` (n = 0: empty cell)
\* occurrences of the characters in `codes` in the grid, in one pass: code -> [cnt, y0, y1, x0, x1]
OccStats(g, codes) ==
  FoldLeft(LAMBDA a, y :
     FoldLeft(LAMBDA b, x :
        LET k == g[y][x] IN
        IF k \notin codes THEN b
        ELSE [b EXCEPT ![k] = [cnt |-> @.cnt + 1, y0 |-> IF @.cnt = 0 THEN y ELSE Min2(@.y0, y), y1 |-> Max2(@.y1, y),
                                x0 |-> IF @.cnt = 0 THEN x ELSE Min2(@.x0, x), x1 |-> Max2(@.x1, x)]],
        a, [x \in 1..Len(g[y]) |-> x]),
     [k \in codes |-> [cnt |-> 0, y0 |-> 0, y1 |-> 0, x0 |-> 0, x1 |-> 0]], [y \in 1..Len(g) |-> y])
P_C06_run(c, run) ==
  (IsOk(run)) =>
    LET g == GridOf(run.res)
        n == Len(g)
        full == SelectSeq(c.meta.cells, LAMBDA k : k.n > 0)
        m == Len(full)
        all == OccStats(g, {full[i].code : i \in 1..m})
        st == [i \in 1..m |-> all[full[i].code]]
        stacked == \E y \in 1..n : IsSlashLine(g[y])
        present == \A i \in 1..m : st[i].cnt = full[i].n                                       \* (iv)
    IN /\ present
       /\ \A y \in 1..n : Len(g[y]) <= run.w                                                   \* (v)
       /\ present =>
            /\ \A i, j \in 1..m : full[i].r < full[j].r => st[i].y1 < st[j].y0               \* (i) rows in order
            /\ ~stacked =>
                 /\ \A i, j \in 1..m : full[i].c1 < full[j].c0 => st[i].x1 < st[j].x0        \* (ii) columns in order
                 /\ \A i, j \in 1..m :                                                          \* (iii) a bar between neighbours
                       (full[i].r = full[j].r /\ full[i].c1 + 1 = full[j].c0) =>
                          \E x \in (st[i].x1 + 1)..(st[j].x0 - 1) :
                             \A y \in Min2(st[i].y0, st[j].y0)..Max2(st[i].y1, st[j].y1) : At(g, y, x) = BAR
P_C06(c) == \A i \in 1..Len(c.runs) : P_C06_run(c, c.runs[i])

(* ---- C10: all API routes agree; rendering is deterministic; render trees are reusable ------------- *)
\* case.hist = the calls of one history on one configuration, with the abstract result of each:
\*   oneshot(doc, w, route) | parse(doc) -> dom handle | tree(dom) -> tree handle | clone(tree) -> tree handle
\*   | render(tree, w, route)      (handles are numbered in order of creation)
\* every completed rendering of (doc, w), by whatever route and wherever in the history, has the same
\* result (text or error kind)
HistRenders(h) ==
  FoldLeft(LAMBDA a, s :
     CASE s.op = "parse" -> IF s.res.k = "ok" THEN [a EXCEPT !.doms = Append(@, s.doc)] ELSE a
       [] s.op = "tree" -> IF s.res.k = "ok" THEN [a EXCEPT !.trees = Append(@, a.doms[s.dom])] ELSE a
       [] s.op = "clone" -> [a EXCEPT !.trees = Append(@, a.trees[s.tree])]
       [] s.op = "oneshot" -> [a EXCEPT !.out = Append(@, [doc |-> s.doc, w |-> s.w, res |-> s.res])]
       [] s.op = "render" -> [a EXCEPT !.out = Append(@, [doc |-> a.trees[s.tree], w |-> s.w, res |-> s.res])]
       [] OTHER -> a,
     [doms |-> <<>>, trees |-> <<>>, out |-> <<>>], h).out
P_C10(c) ==
  "hist" \notin DOMAIN c \/
  LET rs == HistRenders(c.hist) IN
  /\ \A i \in 1..Len(c.hist) : c.hist[i].res.k \in {"ok", "narrow"}
  /\ \A i, j \in 1..Len(rs) :
        (i < j /\ rs[i].doc = rs[j].doc /\ rs[i].w = rs[j].w) =>
           rs[i].res.k = rs[j].res.k /\ rs[i].res.lines = rs[j].res.lines
  /\ \A i \in 1..Len(rs) : rs[i].w = 0 => rs[i].res.k = "narrow"

(* ---- C16: custom decorators are honoured verbatim and measured by display width ----------------- *)
\* the decorator's affix strings (observed through its trait methods) and the text they enclose
AffixCodes(ds) == LET all == ds.link[1] \o ds.link[2] \o ds.em[1] \o ds.em[2] \o ds.strong[1] \o ds.strong[2]
                              \o ds.strike[1] \o ds.strike[2] \o ds.code[1] \o ds.code[2] \o ds.img[1] \o ds.img[2]
                  IN {all[i][1] : i \in 1..Len(all)}
\* letters of V(d) interleaved with the affixes of the elements that are rendered with them
RECURSIVE AffixStream(_, _)
AffixStreamSeq(ns, ds) == Concat([i \in 1..Len(ns) |-> AffixStream(ns[i], ds)])
AffixStream(n, ds) ==
  IF n.k = "t" THEN Letters(n.s)
  ELSE IF n.k # "e" \/ Ignored(n) THEN <<>>
  ELSE IF IsHtml(n, "img") THEN (IF ImgVisible(n) THEN Codes(ds.img[1]) \o Letters(n.a.alt) \o Codes(ds.img[2]) ELSE <<>>)
  ELSE LET inner == AffixStreamSeq(n.c, ds)
           aff == CASE ~n.h -> << <<>>, <<>> >>
                    [] n.n \in {"em", "i", "ins", "dt"} -> ds.em
                    [] n.n = "strong" -> ds.strong
                    [] n.n \in {"s", "del"} -> ds.strike
                    [] n.n = "code" -> ds.code
                    [] n.n = "a" /\ HasAttr(n, "href") /\ NonWs(FlowText(n)) # <<>> -> ds.link
                    [] OTHER -> << <<>>, <<>> >>
       IN Codes(aff[1]) \o inner \o Codes(aff[2])
\* with unicode_strikeout the text inside <s>/<del> (nested affixes included, the element's own affixes
\* not) carries one U+0336 after every character that has width; the comparison keeps a strike mark
\* exactly when it directly follows a kept character
ZeroWidthCode(k) == k \in 768..879
RECURSIVE AffixStreamS(_, _, _)
AffixStreamSSeq(ns, ds, struck) == Concat([i \in 1..Len(ns) |-> AffixStreamS(ns[i], ds, struck)])
Strike1(codes, struck) == IF ~struck THEN codes
                          ELSE Concat([i \in 1..Len(codes) |-> IF ZeroWidthCode(codes[i]) THEN <<codes[i]>> ELSE <<codes[i], STRIKE>>])
AffixStreamS(n, ds, struck) ==
  IF n.k = "t" THEN Strike1(Letters(n.s), struck)
  ELSE IF n.k # "e" \/ Ignored(n) THEN <<>>
  ELSE IF IsHtml(n, "img") THEN (IF ImgVisible(n) THEN Strike1(Codes(ds.img[1]) \o Letters(n.a.alt) \o Codes(ds.img[2]), struck) ELSE <<>>)
  ELSE LET isStrike == n.h /\ n.n \in {"s", "del"}
           aff == CASE ~n.h -> << <<>>, <<>> >>
                    [] n.n \in {"em", "i", "ins", "dt"} -> ds.em
                    [] n.n = "strong" -> ds.strong
                    [] isStrike -> ds.strike
                    [] n.n = "code" -> ds.code
                    [] n.n = "a" /\ HasAttr(n, "href") /\ NonWs(FlowText(n)) # <<>> -> ds.link
                    [] OTHER -> << <<>>, <<>> >>
           inner == AffixStreamSSeq(n.c, ds, struck \/ isStrike)
       IN Strike1(Codes(aff[1]), struck) \o inner \o Strike1(Codes(aff[2]), struck)
\* output codes restricted to `keep`, each followed by a strike mark iff one follows it in the output
KeepWithStrikes(codes, keep) ==
  Concat([i \in 1..Len(codes) |->
            IF codes[i] \in keep
            THEN (IF i < Len(codes) /\ codes[i + 1] = STRIKE THEN <<codes[i], STRIKE>> ELSE <<codes[i]>>)
            ELSE <<>>])
P_C16(c) ==
  /\ \A i \in 1..Len(c.runs) : c.runs[i].res.k \in {"ok", "narrow"}            \* no panic with any strings
  /\ P_C02(c)                                                                    \* the width bound by display width
  /\ P_C07(c)                                                                    \* prefixes measured by display width
  /\ LET a == c.runs[1]  dom == Dom1(c, a)  ds == a.cfg.ds
         \* the characters the comparison looks at: the letters that occur in the document and the affix
         \* characters (block prefixes may use any other character, including wide ones)
         docLetters == LET v == Letters(FlowTextSeq(dom)) IN {v[i] : i \in 1..Len(v)}
         keep == AffixCodes(ds) \cup docLetters
         strikeOn == CfgOf(a.cfg).strike
         obs == IF strikeOn THEN KeepWithStrikes(Codes(AllOut(a.res)), keep) ELSE SelectSeq(Codes(AllOut(a.res)), LAMBDA k : k \in keep)
         exp == IF strikeOn THEN AffixStreamSSeq(dom, ds, FALSE) ELSE AffixStreamSeq(dom, ds) IN
     \* affixes verbatim around the text (table-free documents: an empty element in a cell of an
     \* otherwise empty column is not drawn at all, affixes included)
     (IsOk(a) /\ "affix" \in DOMAIN c.meta /\ ~HasTable(dom)) => obs = exp
  /\ \A i \in 1..Len(c.runs) :                                                  \* trivial decorator: nothing but the text
        LET run == c.runs[i] IN
        (IsOk(run) /\ run.cfg.deco = "trivial") =>
           LET o == SelectSeq(Codes(AllOut(run.res)), LAMBDA k : ~IsWsCode(k) /\ ~IsBoxCode(k) /\ k # GV /\ k # STRIKE)
               \* (characters without any width - C0 / DEL controls - are not visible and are dropped by the renderer)
               v == SelectSeq(NonWs(SelectSeq(FlowTextSeq(Dom1(c, run)), LAMBDA x : CW(x) >= 0)), LAMBDA k : k # GV /\ ~IsBoxCode(k) /\ k # STRIKE) IN
           IF HasTable(Dom1(c, run)) /\ ~CfgOf(run.cfg).raw THEN BagOf(o) = BagOf(v) ELSE o = v

(* ---- C01: rendering is total ----------------------------------------------------------------------- *)
\* every call returns text or the too-narrow error (a CSS parse error only from add_css / add_agent_css);
\* a panic, crash or timeout is recorded by the harness as such and is no result of the specification
P_C01(c) ==
  /\ "crash" \notin DOMAIN c
  /\ \A i \in 1..Len(c.runs) :
        LET run == c.runs[i] IN
        \/ run.res.k \in {"ok", "narrow"}
        \/ run.res.k = "csserr" /\ (HasOp(run.cfg, "css") \/ HasOp(run.cfg, "agentcss"))
  /\ "hist" \in DOMAIN c => \A i \in 1..Len(c.hist) : c.hist[i].res.k \in {"ok", "narrow"}

(* ---- C19 / C20: colours follow the cascade; selectors match what CSS says -------------------------- *)
\* meta.css = [agent, user, author]: the abstract sheets that the generator also wrote out as CSS text
\* (agent -> add_agent_css, user -> add_css, author -> the document's <style>); rich lines route
CssOf(c, run) == LET doc == HasOp(run.cfg, "doccss") IN
                 [agent |-> c.meta.css.agent, user |-> c.meta.css.user,
                  author |-> IF doc THEN c.meta.css.author ELSE <<>>, doc |-> doc, decorate |-> CfgOf(run.cfg).decorate]
\* letters of V(d) with the colour / background they must show: that of the nearest enclosing element
\* with a winning declaration (hidden subtrees contribute nothing): sequence of <<code, fg, bg>>
RECURSIVE ExpColours(_, _, _, _, _, _)
ExpColoursSeq(dom, ns, prefix, css, fg, bg) ==
  Concat([i \in 1..Len(ns) |-> ExpColours(dom, ns[i], Append(prefix, i), css, fg, bg)])
ExpColours(dom, n, p, css, fg, bg) ==
  IF n.k = "t" THEN LET ls == Letters(n.s) IN [i \in 1..Len(ls) |-> <<ls[i], fg, bg>>]
  ELSE IF n.k # "e" \/ Ignored(n) THEN <<>>
  ELSE LET inl == InlineDecls(n, css.doc)
           di == Computed(dom, p, css, inl, "display")
           f == Computed(dom, p, css, inl, "color")
           b == Computed(dom, p, css, inl, "bg")
           fg2 == IF f.has THEN f.val ELSE fg
           bg2 == IF b.has THEN b.val ELSE bg IN
       IF di.has /\ di.val = "none" THEN <<>>
       ELSE IF IsHtml(n, "img") THEN (IF ImgVisible(n) THEN LET ls == Letters(n.a.alt) IN [i \in 1..Len(ls) |-> <<ls[i], fg2, bg2>>] ELSE <<>>)
       ELSE ExpColoursSeq(dom, n.c, p, css, fg2, bg2)
LastTag(tags, kind) == LET idx == {i \in 1..Len(tags) : tags[i][1] = kind} IN
                       IF idx = {} THEN <<>> ELSE LET t == tags[CHOOSE m \in idx : \A q \in idx : q <= m] IN <<t[2], t[3], t[4]>>
ObsColours(res) ==
  \* (generated ::before / ::after texts are written in Greek letters and are not part of the comparison:
  \*  pseudo-elements are outside C19 / C20; where they go is checked against the specification as drift)
  LET items == SelectSeq(Concat(res.lines), LAMBDA x : ~IsFrag(x) /\ IsLetterCode(x[1]) /\ x[1] \notin 945..969) IN
  [i \in 1..Len(items) |-> <<items[i][1], LastTag(items[i][3], "Fg"), LastTag(items[i][3], "Bg")>>]
\* every inline style of the document was abstracted (canonical spelling), else the case is out of scope
InlineOK(dom) == LET ns == NodesSeq(dom) IN
                 \A i \in 1..Len(ns) : ns[i].k = "e" =>
                    /\ HasAttr(ns[i], "style") => ns[i].a.style.ok
                    /\ HasAttr(ns[i], "color") => ns[i].a.color.ok
                    /\ HasAttr(ns[i], "bgcolor") => ns[i].a.bgcolor.ok
\* (side-by-side table cells interleave their lines: compared as multisets there)
ColourOK(c, run) ==
  (IsOk(run) /\ IsRichLines(run) /\ "css" \in DOMAIN c.meta /\ InlineOK(Dom1(c, run))) =>
     LET obs == ObsColours(run.res)
         exp == ExpColoursSeq(Dom1(c, run), Dom1(c, run), <<>>, CssOf(c, run), <<>>, <<>>) IN
     IF HasTable(Dom1(c, run)) THEN BagOf(obs) = BagOf(exp) ELSE obs = exp
P_C19(c) == \A i \in 1..Len(c.runs) : ColourOK(c, c.runs[i])
\* C09 in full: element annotations by nesting, and CSS colours by the cascade (cases that carry sheets)
\* ... and the continuation flag of preformatted text on the documents of the C12 family (one <pre> block,
\* meta.pw): every cell flagged, pieces that start a source line not continuation, overflow pieces continuation
P_C09_pre(c) == \A i \in 1..Len(c.runs) : IsOk(c.runs[i]) => LET p == C12Parts(c, c.runs[i]) IN p.tagsWeak /\ p.tagsStrict
P_C09(c) == IF "css" \in DOMAIN c.meta THEN \A i \in 1..Len(c.runs) : ColourOK(c, c.runs[i])
            ELSE IF "pw" \in DOMAIN c.meta THEN P_C09_pre(c)
            ELSE P_C09_nesting(c)
P_C20(c) == \A i \in 1..Len(c.runs) : ColourOK(c, c.runs[i])

(* ---- C18: display:none hides exactly the matched subtrees --------------------------------------------- *)
\* runs 1, 2: the document with its sheets (use_doc_css) and the same document with the hidden subtrees
\* deleted by the generator; runs 3, 4 (optional): use_doc_css off, the document and StripStyle(d); run 5 below
DelMark(n) == FALSE
RECURSIVE MergeText(_)
MergeText(ns) ==
  LET m == FoldLeft(LAMBDA acc, n :
             IF n.k = "t" /\ acc # <<>> /\ Last(acc).k = "t" THEN [acc EXCEPT ![Len(acc)].s = @ \o n.s]
             ELSE IF n.k = "c" THEN acc
             ELSE Append(acc, n), <<>>, ns)
      \* a <tbody> that the parser inserted and that lost all its rows is not in the re-parsed document
      m2 == SelectSeq(m, LAMBDA n : ~(n.k = "e" /\ n.h /\ n.n = "tbody" /\ \A j \in 1..Len(n.c) : n.c[j].k # "e" \/ DelMark(n.c[j])))
  IN [i \in 1..Len(m2) |-> IF m2[i].k = "e" THEN [m2[i] EXCEPT !.c = MergeText(@)] ELSE m2[i]]
\* the generator's deletion is the reference one (otherwise the case is a tool error, not a verdict)
C18Sane(c) == LET a == c.runs[1]  b == c.runs[2] IN
              MergeText(Dom1(c, b)) = MergeText(DeleteHidden(Dom1(c, a), CssOf(c, a)))
P_C18(c) ==
  Len(c.runs) < 2 \/
  /\ C18Sane(c)
  /\ SameResult(c.runs[1], c.runs[2])
  /\ Len(c.runs) >= 4 => SameResult(c.runs[3], c.runs[4])
  \* run 5 (optional): the document without its hidden subtrees, use_doc_css off - the sheets of that document
  \* select nothing that is left, so this is "as if the hidden subtrees had been deleted" without any CSS at work
  /\ Len(c.runs) >= 5 => SameResult(c.runs[1], c.runs[5])

(* ---- C17: CSS never breaks rendering; insignificant CSS syntax does not matter ------------------------ *)
\* meta.kind = "total": any string to add_css / add_agent_css: Ok or CssParseError (P_C01)
\*           = "inert": runs 1, 2 = the document with <style>s</style> and without it (use_doc_css on; s has
\*                      no display / content / white-space): same kind of result and the same letters
\*           = "variant": runs 1, 2 = the same document under a valid sheet S and under a variant v(S)
P_C17(c) ==
  CASE c.meta.kind = "total" -> P_C01(c)
    [] c.meta.kind = "inert" -> /\ P_C01(c)
                                /\ c.runs[1].res.k = c.runs[2].res.k
                                /\ Letters(AllOut(c.runs[1].res)) = Letters(AllOut(c.runs[2].res))
    [] c.meta.kind = "variant" -> P_C01(c) /\ SameResult(c.runs[1], c.runs[2])
    [] OTHER -> FALSE
=============================================================================
