------------------------------- MODULE Props -------------------------------
(* The twenty property predicates.  A *case* is a record
     [id, doms, runs, meta]   with   run = [d, w, cfg, route, res]   and   res = [k, lines, sw]
   res.k \in {"ok","narrow","csserr","fail","panic"}; res.lines are sequences of cells (string
   routes) or items (lines routes); res.sw[i] is the string-level display width of line i.
   The same predicates are TLC invariants of the model-checking configurations (applied to the
   model's predicted result) and the acceptance condition of trace validation (applied to results
   observed from the real library). *)
EXTENDS Dom, Api, Wrap, Tree

Dom1(c, run) == c.doms[run.d]
MetaGet(c, f, dflt) == IF f \in DOMAIN c.meta THEN c.meta[f] ELSE dflt
IsOk(run) == run.res.k = "ok"
LineW(ln) == SumW(ln)
OutCells(res) == Concat([i \in 1..Len(res.lines) |-> Plain(NoFrags(res.lines[i]))])
RunsOf(c) == c.runs

(* ---- C02: no output line wider than the requested width ------------------------------- *)
P_C02_run(run) ==
  LET cf == CfgOf(run.cfg) IN
  (IsOk(run) /\ ~cf.overflow /\ cf.wraplinks /\ run.w >= 1) =>
     \A i \in 1..Len(run.res.lines) : LineW(run.res.lines[i]) <= run.w /\ run.res.sw[i] <= run.w
P_C02(c) == \A i \in 1..Len(c.runs) : P_C02_run(c.runs[i])

(* ---- C03: document text preserved ------------------------------------------------------ *)
\* letters of each td/th without a nested table, in source order
CellTexts(dom) ==
  LET ns == NodesSeq(dom)
      cellsq == SelectSeq(ns, LAMBDA n : n.k = "e" /\ n.h /\ n.n \in {"td", "th"} /\ ~HasTable(n.c))
  IN [i \in 1..Len(cellsq) |-> Letters(FlowTextSeq(cellsq[i].c))]
P_C03_run(c, run) ==
  IsOk(run) =>
    LET dom == Dom1(c, run)
        cf == CfgOf(run.cfg)
        v == Letters(FlowTextSeq(dom))
        o == Letters(OutCells(run.res))
    IN IF ~HasTable(dom) \/ cf.raw
       THEN o = v
       ELSE /\ BagOf(o) = BagOf(v)
            /\ LET ct == CellTexts(dom) IN \A i \in 1..Len(ct) : IsSubseq(ct[i], o)
P_C03(c) == \A i \in 1..Len(c.runs) : P_C03_run(c, c.runs[i])

(* ---- C04: paragraph wrapping is greedy word filling ------------------------------------- *)
\* case.meta = [pw |-> prefix width of the enclosing block (0 for a bare paragraph), m |-> max_wrap_width or -1]
\* decorators without inline affixes (rich / trivial) so that the paragraph's text is its flow text
StripPrefix(ln, pw) == IF Len(ln) >= pw THEN SubSeq(ln, pw + 1, Len(ln)) ELSE <<>>
P_C04_run(c, run) ==
  LET v == FlowTextSeq(Dom1(c, run))
      words == SplitWords(v)
      zeroOnly == \E i \in 1..Len(words) : SumW(words[i]) = 0
      pw == MetaGet(c, "pw", 0)
      m == MetaGet(c, "m", -1)
      avail == run.w - pw
      eff == IF m >= 0 THEN Min2(m, avail) ELSE avail
      g == Greedy(words, eff)
      obs == [i \in 1..Len(run.res.lines) |-> StripPrefix(Plain(NoFrags(run.res.lines[i])), pw)]
  IN (zeroOnly \/ eff < 1 \/ CfgOf(run.cfg).overflow) \/
     IF g.err THEN run.res.k = "narrow"
     ELSE /\ run.res.k = "ok"
          /\ obs = g.lines
P_C04(c) == \A i \in 1..Len(c.runs) : P_C04_run(c, c.runs[i])

(* ---- C12: preformatted text keeps its lines and spacing ---------------------------------- *)
\* the document holds exactly one <pre>; meta.pw = width of the prefix of the enclosing block (0 / 2)
RECURSIVE PreTokens(_)
PreTokensSeq(ns) == Concat([i \in 1..Len(ns) |-> PreTokens(ns[i])])
PreTokens(n) == IF n.k = "t" THEN n.s
                ELSE IF n.k # "e" THEN <<>>
                ELSE IF IsHtml(n, "br") THEN << <<NL, -1>> >>
                ELSE PreTokensSeq(n.c)
\* split at newlines; no-width cells other than tab/newline are dropped by the renderer
SplitLines(cells) ==
  LET r == FoldLeft(LAMBDA a, c : IF c[1] = NL THEN [ls |-> Append(a.ls, a.cur), cur |-> <<>>]
                                  ELSE IF CW(c) < 0 /\ c[1] # TAB THEN a
                                  ELSE [a EXCEPT !.cur = Append(@, c)],
                    [ls |-> <<>>, cur |-> <<>>], cells)
  IN Append(r.ls, r.cur)
\* tabs to 8-column stops (at least one space)
Expand(line) ==
  FoldLeft(LAMBDA a, c : IF c[1] = TAB THEN LET k == 8 - (SumW(a) % 8) IN a \o Rep(C2(32), k) ELSE Append(a, c), <<>>, line)
IsSpaceCell(c) == IsWs(c)
NonSpaceCodes(cells) == SelectSeq(Codes(cells), LAMBDA k : ~IsWsCode(k))
StripTrailingEmpty(ls) ==
  LET idx == {i \in 1..Len(ls) : TrimR(ls[i]) # <<>>} IN
  IF idx = {} THEN <<>> ELSE SubSeq(ls, 1, CHOOSE m \in idx : \A j \in idx : j <= m)
PreNode(dom) == LET ns == NodesSeq(dom) IN ns[CHOOSE i \in 1..Len(ns) : IsHtml(ns[i], "pre")]
\* pieces never span two source lines, in order, nothing lost.  Returns [ok, lab]: lab[k] says whether
\* output line k starts a source line ("first"), continues one ("cont") or holds no text ("blank")
Align(src, outs) ==
  LET n == Len(src)
      step(a, x) ==
        IF ~a.ok THEN a
        ELSE IF x = <<>> THEN [a EXCEPT !.lab = Append(@, "blank")]
        ELSE LET cand == {j \in a.i..n : (j = a.i /\ a.pos < Len(src[j])) \/ (j > a.i /\ Len(src[j]) > 0)} IN
             IF cand = {} THEN [a EXCEPT !.ok = FALSE]
             ELSE LET j == CHOOSE m \in cand : \A q \in cand : m <= q
                      p == IF j = a.i THEN a.pos ELSE 0 IN
                  IF p + Len(x) <= Len(src[j]) /\ SubSeq(src[j], p + 1, p + Len(x)) = x
                  THEN [i |-> j, pos |-> p + Len(x), ok |-> TRUE, lab |-> Append(a.lab, IF p > 0 THEN "cont"
                                                   ELSE IF a.lab = <<>> \/ Last(a.lab) # "blank" THEN "first"
                                                   ELSE "unknown")]   \* after a blank piece: cannot tell
                  ELSE [a EXCEPT !.ok = FALSE]
      fin == FoldLeft(step, [i |-> 1, pos |-> 0, ok |-> TRUE, lab |-> <<>>], outs)
  IN [ok |-> fin.ok /\ (n = 0 \/ (fin.pos = Len(src[fin.i]) /\ \A j \in (fin.i + 1)..n : src[j] = <<>>)), lab |-> fin.lab]
PTag(item) == IF Len(item) >= 3 /\ item[3] # <<>> /\ Last(item[3])[1] = "P" THEN Last(item[3])[2] ELSE -1
C12Parts(c, run) ==
    LET pw == MetaGet(c, "pw", 0)
        avail == run.w - pw
        src == SplitLines(PreTokensSeq(PreNode(Dom1(c, run)).c))
        exp == [i \in 1..Len(src) |-> Expand(src[i])]
        fits == \A i \in 1..Len(exp) : SumW(exp[i]) <= avail
        outItems == [i \in 1..Len(run.res.lines) |-> StripPrefix(NoFrags(run.res.lines[i]), pw)]
        out == [i \in 1..Len(outItems) |-> Plain(outItems[i])]
        rich == run.route \in {"lines", "staged_lines"} /\ run.cfg.deco = "rich"
        al == Align([i \in 1..Len(src) |-> NonSpaceCodes(src[i])], [i \in 1..Len(out) |-> NonSpaceCodes(out[i])])
        NonSp(items) == SelectSeq(items, LAMBDA x : ~IsWs(x))
    IN [ \* text: verbatim when it fits; otherwise conservation per source line and the width bound
         core |-> IF fits
                  THEN StripTrailingEmpty([i \in 1..Len(out) |-> TrimR(out[i])]) = StripTrailingEmpty([i \in 1..Len(exp) |-> TrimR(exp[i])])
                  ELSE /\ \A i \in 1..Len(out) : SumW(out[i]) <= avail \/ CfgOf(run.cfg).overflow
                       /\ al.ok,
         \* rich: every cell carries exactly one Preformat flag (last in its vector); nothing is flagged
         \* continuation when the block fits
         tagsWeak |-> rich =>
                  /\ \A i \in 1..Len(outItems) : \A j \in 1..Len(outItems[i]) : PTag(outItems[i][j]) \in {0, 1}
                  /\ fits => \A i \in 1..Len(outItems) : \A j \in 1..Len(outItems[i]) : PTag(outItems[i][j]) = 0
                  ,
         \* ... the piece that starts a source line is flagged Preformat(false) throughout and every
         \* character of an overflow piece Preformat(true)
         tagsStrict |-> (rich /\ ~fits /\ al.ok) =>
                  \A i \in 1..Len(outItems) :
                     LET it == NonSp(outItems[i]) IN
                     /\ al.lab[i] = "first" => \A j \in 1..Len(it) : PTag(it[j]) = 0
                     /\ al.lab[i] = "cont" => \A j \in 1..Len(it) : PTag(it[j]) = 1 ]
P_C12_run(c, run) == IsOk(run) => LET p == C12Parts(c, run) IN p.core /\ p.tagsWeak /\ p.tagsStrict
P_C12(c) == \A i \in 1..Len(c.runs) : P_C12_run(c, c.runs[i])

(* ---- C11: width errors; overflow always succeeds and is otherwise a no-op ------------------- *)
\* runs (tagged): "zero" = width 0, "base" = (d, w, o), "ovf" = (d, w, o + allow_width_overflow)
RunTagged(c, t) == LET idx == {i \in 1..Len(c.runs) : "tag" \in DOMAIN c.runs[i] /\ c.runs[i].tag = t} IN
                   IF idx = {} THEN [none |-> TRUE] ELSE c.runs[CHOOSE i \in idx : TRUE]
HasRun(r) == "none" \notin DOMAIN r
\* P(d): the largest total prefix width of a chain of nested blocks (from the DOM and the decorator strings)
RECURSIVE PrefixDepth(_, _)
PrefixDepthSeq(ns, ds) == FoldLeft(LAMBDA a, n : Max2(a, PrefixDepth(n, ds)), 0, ns)
OlItems(n) == Cardinality({i \in 1..Len(n.c) : IsHtml(n.c[i], "li")})
PrefixDepth(n, ds) ==
  IF n.k # "e" \/ Ignored(n) THEN 0
  ELSE LET inner == PrefixDepthSeq(n.c, ds)
           own == CASE ~n.h -> 0
                    [] n.n = "blockquote" -> SumW(ds.quote)
                    [] n.n = "ul" -> SumW(ds.ul)
                    [] n.n = "dd" -> 2
                    [] n.n = "ol" -> LET big == HasAttr(n, "start") /\ Len(n.a.start.c) > 9
                                         st == IF HasAttr(n, "start") /\ ~big THEN ParseInt(n.a.start.c, TRUE, 1) ELSE 1
                                         k == OlItems(n) IN
                                     \* numbers beyond TLC's integers: over-approximate the marker width
                                     \* (all characters of the attribute, plus one for a carry)
                                     (IF big THEN Len(n.a.start.c) + 1
                                      ELSE Max2(Len(NumCells(st)), Len(NumCells(st + Max2(k, 1) - 1)))) + SumW(ds.olsuf)
                    [] n.n \in {"h1", "h2", "h3", "h4", "h5", "h6"} ->
                         SumW(ds.hdr[CHOOSE l \in 1..6 : n.n = <<"h1", "h2", "h3", "h4", "h5", "h6">>[l]])
                    [] OTHER -> 0
       IN own + inner
P_C11(c) ==
  LET z == RunTagged(c, "zero")  b == RunTagged(c, "base")  o == RunTagged(c, "ovf") IN
  /\ HasRun(z) => z.res.k = "narrow"
  /\ (HasRun(o) /\ o.w >= 1) => o.res.k = "ok"
  /\ (HasRun(b) /\ HasRun(o) /\ b.res.k = "ok") => (o.res.k = "ok" /\ o.res.lines = b.res.lines)
  /\ (HasRun(o) /\ o.res.k = "ok" /\ o.w >= 1 /\ ~HasTable(Dom1(c, o)) /\ CfgOf(o.cfg).wraplinks) =>
        LET cf == CfgOf(o.cfg)
            bound == Max2(o.w, PrefixDepthSeq(Dom1(c, o), o.cfg.ds) + Max2(cf.minwrap, 5)) IN
        \A i \in 1..Len(o.res.lines) : o.res.sw[i] <= bound

(* ---- C13: output does not depend on the source formatting of collapsible whitespace -------- *)
\* runs 1 and 2: the document and its rewrite r(d), same width and configuration
SameResult(a, b) == a.res.k = b.res.k /\ a.res.lines = b.res.lines
P_C13(c) == \A i \in 2..Len(c.runs) : SameResult(c.runs[1], c.runs[i])

(* ---- C15: layout options are orthogonal and do only what they say --------------------------- *)
\* runs: 1 = base configuration, 2 = base + option meta.opt (argument meta.arg); meta.applies says
\* whether the document has anything the option applies to (computed by TLA+ below, not trusted)
LineCodes(res) == [i \in 1..Len(res.lines) |-> Codes(NoFrags(res.lines[i]))]
DelCode(codes, k) == SelectSeq(codes, LAMBDA x : x # k)
RStripCodes(codes) == LET idx == {i \in 1..Len(codes) : codes[i] # 32} IN
                      IF idx = {} THEN <<>> ELSE SubSeq(codes, 1, CHOOSE m \in idx : \A j \in idx : j <= m)
AllOut(res) == Concat([i \in 1..Len(res.lines) |-> Plain(NoFrags(res.lines[i]))])
HasBox(res) == \E i \in 1..Len(res.lines) : \E j \in 1..Len(res.lines[i]) : IsBoxCode(res.lines[i][j][1])
\* a reference "[digits]" somewhere in a line
HasRef(codes) == \E i \in 1..Len(codes) : codes[i] = 91 /\
                   \E j \in (i + 2)..Len(codes) : codes[j] = 93 /\ \A k \in (i + 1)..(j - 1) : codes[k] \in 48..57
HasLinkEl(dom) == LET ns == NodesSeq(dom) IN \E i \in 1..Len(ns) : IsHtml(ns[i], "a") /\ HasAttr(ns[i], "href")
HasNestedBlock(dom) == HasElem(dom, {"ul", "ol", "blockquote", "dl", "dd", "table", "h1", "h2", "h3", "h4", "h5", "h6"})
P_C15(c) ==
  "opt" \notin DOMAIN c.meta \/
  LET a == c.runs[1]  b == c.runs[2]  opt == c.meta.opt  dom == Dom1(c, a)
      bothOk == a.res.k = "ok" /\ b.res.k = "ok" IN
  CASE opt = "max_wrap" ->
         /\ c.meta.arg >= a.w => SameResult(a, b)
         /\ (b.res.k = "ok" /\ ~HasTable(dom) /\ ~CfgOf(b.cfg).footnotes /\ ~CfgOf(b.cfg).overflow) =>
               \A i \in 1..Len(b.res.lines) : b.res.sw[i] <= PrefixDepthSeq(dom, b.cfg.ds) + c.meta.arg
    [] opt = "pad" ->
         /\ a.res.k = b.res.k
         /\ bothOk => [i \in 1..Len(a.res.lines) |-> RStripCodes(LineCodes(a.res)[i])] = [i \in 1..Len(b.res.lines) |-> RStripCodes(LineCodes(b.res)[i])]
    [] opt = "strike" ->     \* run 1 has unicode_strikeout(true), run 2 (false)
         /\ a.res.k = b.res.k
         /\ bothOk => [i \in 1..Len(a.res.lines) |-> DelCode(LineCodes(a.res)[i], STRIKE)] = LineCodes(b.res)
         /\ ~HasElem(dom, {"s", "del"}) => SameResult(a, b)
    [] opt \in {"noborders", "raw"} ->
         /\ b.res.k = "ok" => ~HasBox(b.res)
         /\ bothOk => BagOf(Letters(AllOut(a.res))) = BagOf(Letters(AllOut(b.res)))
         /\ (opt = "raw" /\ b.res.k = "ok") => Letters(AllOut(b.res)) = Letters(FlowTextSeq(dom))
         /\ ~HasTable(dom) => SameResult(a, b)
    [] opt = "footnotes" ->  \* run 1 has link_footnotes(true), run 2 (false)
         /\ bothOk => IF HasTable(dom) /\ ~CfgOf(a.cfg).raw
                       THEN BagOf(Letters(AllOut(a.res))) = BagOf(Letters(AllOut(b.res)))
                       ELSE Letters(AllOut(a.res)) = Letters(AllOut(b.res))
         /\ b.res.k = "ok" => \A i \in 1..Len(b.res.lines) : ~HasRef(LineCodes(b.res)[i])
         /\ ~HasLinkEl(dom) => SameResult(a, b)
    [] opt = "nolinkwrap" -> (~HasLinkEl(dom) \/ ~CfgOf(a.cfg).footnotes) => SameResult(a, b)
    [] opt = "min_wrap" -> ~HasNestedBlock(dom) => SameResult(a, b)
    [] OTHER -> FALSE

(* ---- C14: every id with visible content yields one fragment marker at its content ------------ *)
\* run 1: lines route with the ids; runs 2, 3: string route with and without the ids
FragOf(n) == FragName(n)
\* [name, before, vis]: for every element carrying an id / anchor name (outside ignored subtrees):
\* the number of letters of V(d) preceding it and whether it contains a visible character
RECURSIVE IdInfo(_, _)
IdInfoSeq(ns, before) ==
  FoldLeft(LAMBDA a, n : LET r == IdInfo(n, a.before) IN [before |-> r.before, out |-> a.out \o r.out],
           [before |-> before, out |-> <<>>], ns)
IdInfo(n, before) ==
  IF n.k = "t" THEN [before |-> before + Len(Letters(n.s)), out |-> <<>>]
  ELSE IF n.k # "e" THEN [before |-> before, out |-> <<>>]
  ELSE LET inner == IF Ignored(n) THEN [before |-> before, out |-> <<>>]
                    ELSE IF IsHtml(n, "img") THEN [before |-> before + Len(Letters(FlowText(n))), out |-> <<>>]
                    ELSE IdInfoSeq(n.c, before)
           fr == FragOf(n)
       IN IF IsNull(fr) THEN inner
          ELSE [before |-> inner.before,
                out |-> << [name |-> fr.name, before |-> before, vis |-> NonWs(FlowText(n)) # <<>>,
                            ign |-> Ignored(n)] >> \o inner.out]
\* markers of the output in reading order with the number of letters emitted before each
MarkersOf(res) ==
  FoldLeft(LAMBDA a, x : IF IsFrag(x) THEN [a EXCEPT !.out = Append(@, [name |-> x[3][1][2], before |-> a.n])]
                         ELSE IF IsLetterCode(x[1]) THEN [a EXCEPT !.n = @ + 1] ELSE a,
           [n |-> 0, out |-> <<>>], Concat(res.lines)).out
P_C14(c) ==
  LET a == c.runs[1]
      dom == Dom1(c, a)
      ids == IdInfoSeq(dom, 0).out
      ms == MarkersOf(a.res)
      Count(nm) == Cardinality({i \in 1..Len(ms) : ms[i].name = nm})
      tableFree == ~HasTable(dom) IN
  /\ IsOk(a) =>
       \* exactly one marker per id with visible content, never more than one per id, none invented
       /\ \A i \in 1..Len(ids) : (ids[i].vis => Count(ids[i].name) = 1) /\ Count(ids[i].name) <= 1
       /\ \A j \in 1..Len(ms) : \E i \in 1..Len(ids) : ids[i].name = ms[j].name
       \* position: after all text preceding the element, not after its first visible character
       /\ tableFree => \A i \in 1..Len(ids) : \A j \in 1..Len(ms) :
                           (ids[i].vis /\ ms[j].name = ids[i].name) => ms[j].before = ids[i].before
       \* markers carry no width
       /\ \A i \in 1..Len(a.res.lines) : a.res.sw[i] = SumW(NoFrags(a.res.lines[i]))
  \* the text does not depend on the ids
  /\ Len(c.runs) >= 3 => SameResult(c.runs[2], c.runs[3])
=============================================================================
