------------------------------- MODULE Props -------------------------------
(* The twenty property predicates.  A *case* is a record
     [id, doms, runs, meta]   with   run = [d, w, cfg, route, res]   and   res = [k, lines, sw]
   res.k \in {"ok","narrow","csserr","fail","panic"}; res.lines are sequences of cells (string
   routes) or items (lines routes); res.sw[i] is the string-level display width of line i.
   The same predicates are TLC invariants of the model-checking configurations (applied to the
   model's predicted result) and the acceptance condition of trace validation (applied to results
   observed from the real library). *)
EXTENDS Dom, Api, Wrap

Dom1(c, run) == c.doms[run.d]
MetaGet(c, f, dflt) == IF f \in DOMAIN c.meta THEN c.meta[f] ELSE dflt
IsOk(run) == run.res.k = "ok"
LineW(ln) == SumW(ln)
OutCells(res) == Concat([i \in 1..Len(res.lines) |-> Plain(NoFrags(res.lines[i]))])
RunsOf(c) == c.runs

(* ---- C02: no output line wider than the requested width ------------------------------- *)
P_C02_run(run) ==
  LET cf == CfgOf(run.cfg) IN
  (IsOk(run) /\ ~cf.overflow /\ cf.wraplinks /\ run.w >= 1) =>
     \A i \in 1..Len(run.res.lines) : LineW(run.res.lines[i]) <= run.w /\ run.res.sw[i] <= run.w
P_C02(c) == \A i \in 1..Len(c.runs) : P_C02_run(c.runs[i])

(* ---- C03: document text preserved ------------------------------------------------------ *)
\* letters of each td/th without a nested table, in source order
CellTexts(dom) ==
  LET ns == NodesSeq(dom)
      cellsq == SelectSeq(ns, LAMBDA n : n.k = "e" /\ n.h /\ n.n \in {"td", "th"} /\ ~HasTable(n.c))
  IN [i \in 1..Len(cellsq) |-> Letters(FlowTextSeq(cellsq[i].c))]
P_C03_run(c, run) ==
  IsOk(run) =>
    LET dom == Dom1(c, run)
        cf == CfgOf(run.cfg)
        v == Letters(FlowTextSeq(dom))
        o == Letters(OutCells(run.res))
    IN IF ~HasTable(dom) \/ cf.raw
       THEN o = v
       ELSE /\ BagOf(o) = BagOf(v)
            /\ LET ct == CellTexts(dom) IN \A i \in 1..Len(ct) : IsSubseq(ct[i], o)
P_C03(c) == \A i \in 1..Len(c.runs) : P_C03_run(c, c.runs[i])

(* ---- C04: paragraph wrapping is greedy word filling ------------------------------------- *)
\* case.meta = [pw |-> prefix width of the enclosing block (0 for a bare paragraph), m |-> max_wrap_width or -1]
\* decorators without inline affixes (rich / trivial) so that the paragraph's text is its flow text
StripPrefix(ln, pw) == IF Len(ln) >= pw THEN SubSeq(ln, pw + 1, Len(ln)) ELSE <<>>
P_C04_run(c, run) ==
  LET v == FlowTextSeq(Dom1(c, run))
      words == SplitWords(v)
      zeroOnly == \E i \in 1..Len(words) : SumW(words[i]) = 0
      pw == MetaGet(c, "pw", 0)
      m == MetaGet(c, "m", -1)
      avail == run.w - pw
      eff == IF m >= 0 THEN Min2(m, avail) ELSE avail
      g == Greedy(words, eff)
      obs == [i \in 1..Len(run.res.lines) |-> StripPrefix(Plain(NoFrags(run.res.lines[i])), pw)]
  IN (zeroOnly \/ eff < 1 \/ CfgOf(run.cfg).overflow) \/
     IF g.err THEN run.res.k = "narrow"
     ELSE /\ run.res.k = "ok"
          /\ obs = g.lines
P_C04(c) == \A i \in 1..Len(c.runs) : P_C04_run(c, c.runs[i])
=============================================================================
