-------------------------------- MODULE Api --------------------------------
(* The configuration builder (src/lib.rs `config`): a configuration is the decorator constructor
   followed by builder calls in order; CfgOf folds them exactly as the builder methods do
   (e.g. raw_mode(b) always clears draw_borders, also for b = FALSE). *)
EXTENDS Cells

BaseCfg(deco) ==
  [ deco |-> deco,
    decorate |-> (deco = "plain"), footnotes |-> (deco = "plain"),
    maxwrap |-> -1,            \* -1 = None
    minwrap |-> 3, pad |-> FALSE, overflow |-> FALSE, raw |-> FALSE, borders |-> TRUE,
    wraplinks |-> TRUE, strike |-> TRUE, doccss |-> FALSE, css |-> <<>>, agentcss |-> <<>> ]

ApplyOp(c, op) ==
  CASE op[1] = "max_wrap" -> [c EXCEPT !.maxwrap = op[2]]
    [] op[1] = "min_wrap" -> [c EXCEPT !.minwrap = op[2]]
    [] op[1] = "pad" -> [c EXCEPT !.pad = TRUE]
    [] op[1] = "overflow" -> [c EXCEPT !.overflow = TRUE]
    [] op[1] = "raw" -> [c EXCEPT !.raw = op[2], !.borders = FALSE]
    [] op[1] = "noborders" -> [c EXCEPT !.borders = FALSE]
    [] op[1] = "nolinkwrap" -> [c EXCEPT !.wraplinks = FALSE]
    [] op[1] = "footnotes" -> [c EXCEPT !.footnotes = op[2]]
    [] op[1] = "strike" -> [c EXCEPT !.strike = op[2]]
    [] op[1] = "decorate" -> [c EXCEPT !.decorate = TRUE]
    [] op[1] = "doccss" -> [c EXCEPT !.doccss = TRUE]
    [] op[1] = "css" -> [c EXCEPT !.css = Append(@, op[2])]
    [] op[1] = "agentcss" -> [c EXCEPT !.agentcss = Append(@, op[2])]
    [] OTHER -> c

DecoName(d) == IF d \in {"plain", "plain_nd", "rich", "trivial"} THEN d ELSE "custom"
CfgOf(cfg) == FoldLeft(ApplyOp, BaseCfg(IF DecoName(cfg.deco) = "plain_nd" THEN "plain_nd" ELSE DecoName(cfg.deco)), cfg.ops)
HasOp(cfg, name) == \E i \in 1..Len(cfg.ops) : cfg.ops[i][1] = name
=============================================================================
