-------------------------------- MODULE Dom --------------------------------
(* The abstract document: what the harness's own html5ever TreeSink built from the bytes.
   node = [k |-> "t", s |-> cells] | [k |-> "c"] (comment)
        | [k |-> "e", n |-> local name, h |-> in HTML namespace, a |-> attribute record, c |-> children] *)
EXTENDS Cells

IsText(n) == n.k = "t"
IsElem(n) == n.k = "e"
IsHtml(n, name) == n.k = "e" /\ n.h /\ n.n = name
HasAttr(n, a) == a \in DOMAIN n.a
\* elements whose subtree the renderer ignores (process_dom_node)
Ignored(n) == n.k = "e" /\ n.h /\ n.n \in {"head", "script", "style", "link", "meta", "hr"}
ImgVisible(n) == HasAttr(n, "alt") /\ n.a.alt # <<>> /\ HasAttr(n, "src") /\ n.a.src # ""

\* V(d): the flow text of the document, as cells, in document order
RECURSIVE FlowText(_)
FlowTextSeq(ns) == FoldLeft(LAMBDA acc, n : acc \o FlowText(n), <<>>, ns)
FlowText(n) ==
  IF n.k = "t" THEN n.s
  ELSE IF n.k # "e" \/ Ignored(n) THEN <<>>
  ELSE IF IsHtml(n, "img") THEN (IF ImgVisible(n) THEN n.a.alt ELSE <<>>)
  ELSE FlowTextSeq(n.c)

\* all nodes in document order (not descending into ignored subtrees)
RECURSIVE Nodes(_)
NodesSeq(ns) == FoldLeft(LAMBDA acc, n : acc \o Nodes(n), <<>>, ns)
Nodes(n) == <<n>> \o (IF n.k = "e" /\ ~Ignored(n) THEN NodesSeq(n.c) ELSE <<>>)
HasTable(dom) == LET ns == NodesSeq(dom) IN \E i \in 1..Len(ns) : IsHtml(ns[i], "table")
HasElem(dom, names) == LET ns == NodesSeq(dom) IN \E i \in 1..Len(ns) : ns[i].k = "e" /\ ns[i].h /\ ns[i].n \in names
=============================================================================
