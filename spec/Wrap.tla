-------------------------------- MODULE Wrap --------------------------------
(* WrappedBlock (src/render/text_renderer.rs): the character-level line filler.
   State  wb = [width, text, line, word, wslen, wordlen, spacetag, prew, pad, ovf, err]
     text     finished lines (sequences of items)        line   the line being filled
     word     the current word (items, may contain fragment markers)
     wslen    pending whitespace columns, spacetag its tag
     prew     pre_wrapped: a <pre> line has been force-wrapped (continuation tag in use)
     pad/ovf  options pad_block_width / allow_width_overflow
     err      TRUE once TooNarrow has been raised (the code returns Err and abandons the render)
   One operator per method of the code; `AddChar` is one iteration of add_text's loop, which is
   also exposed as a TLC action in mc/MC_Wrap.tla (one state per character). *)
EXTENDS Cells

Preserve(m) == m \in {"Pre", "PreWrap"}
DoWrap(m) == m \in {"Normal", "PreWrap"}
Spaces(n, tag) == Rep(<<32, 1, tag>>, n)
TagOf(x) == x[3]

NewWB(w, pad, ovf) ==
  [width |-> w, text |-> <<>>, line |-> <<>>, word |-> <<>>, wslen |-> 0, wordlen |-> 0,
   spacetag |-> <<>>, hasst |-> FALSE, prew |-> FALSE, pad |-> pad, ovf |-> ovf, err |-> FALSE]

\* force_flush_line: optional padding with the tag of the pending whitespace (or the default tag)
PadLine(wb, ln) ==
  IF wb.pad /\ SumW(ln) < wb.width
  THEN ln \o Spaces(wb.width - SumW(ln), IF wb.hasst THEN wb.spacetag ELSE <<>>)
  ELSE ln
ForceFlushLine(wb) == [wb EXCEPT !.text = Append(@, PadLine(wb, wb.line)), !.line = <<>>]
FlushLine(wb) == IF ~HasStr(wb.line) THEN wb ELSE ForceFlushLine(wb)

\* flush_word_hard_wrap.  The code works piece by piece (maximal runs of equal tag); `first` is
\* "idx == 0" (first character of the not yet copied part of the piece) and is reset at every piece
\* boundary.  Non-text elements (fragment markers) are carried into the line.
RECURSIVE HardWrap(_, _, _, _)
HardWrap(wb, cells, first, prevtag) ==
  IF cells = <<>> \/ wb.err THEN wb
  ELSE LET c == Head(cells) IN
       IF IsFrag(c) THEN HardWrap([wb EXCEPT !.line = Append(@, c)], Tail(cells), TRUE, <<"none">>)
       ELSE LET left == wb.width - SumW(wb.line)
                fst == first \/ TagOf(c) # prevtag
            IN IF CWp(c) <= left
               THEN HardWrap([wb EXCEPT !.line = Append(@, c)], Tail(cells), FALSE, TagOf(c))
               ELSE IF fst /\ SumW(wb.line) = 0
                    THEN IF wb.ovf
                         THEN HardWrap(ForceFlushLine([wb EXCEPT !.line = Append(@, c)]), Tail(cells), TRUE, TagOf(c))
                         ELSE [wb EXCEPT !.err = TRUE]                      \* TooNarrow
                    ELSE HardWrap(ForceFlushLine(wb), cells, TRUE, TagOf(c))

\* "while self.wslen > 0" after the line break in flush_word (non-wrapping modes)
RECURSIVE CopyWs(_)
CopyWs(wb) == IF wb.wslen = 0 THEN wb
              ELSE LET n == Min2(wb.wslen, wb.width)
                       w1 == [wb EXCEPT !.line = @ \o Spaces(n, wb.spacetag)]
                       w2 == IF n = wb.width THEN FlushLine(w1) ELSE w1
                   IN IF wb.width = 0 THEN [wb EXCEPT !.wslen = 0]    \* nothing fits in a zero-width block
                      ELSE CopyWs([w2 EXCEPT !.wslen = @ - n])

FlushWord(wb, m) ==
  IF ~HasStr(wb.word) THEN [wb EXCEPT !.wordlen = 0]
  ELSE LET w0 == [wb EXCEPT !.prew = FALSE]
           inline == w0.width - SumW(w0.line)
           needed == w0.wslen + w0.wordlen
       IN IF needed <= inline
          THEN [w0 EXCEPT !.line = @ \o Spaces(w0.wslen, w0.spacetag) \o w0.word, !.word = <<>>,
                          !.wslen = 0, !.wordlen = 0, !.hasst = IF w0.wslen > 0 THEN FALSE ELSE @]
          ELSE LET wa == IF ~DoWrap(m)
                         THEN (IF w0.wslen >= inline THEN [w0 EXCEPT !.wslen = @ - inline]
                               ELSE IF w0.wslen > 0
                                    THEN [w0 EXCEPT !.line = @ \o Spaces(w0.wslen, w0.spacetag), !.wslen = 0, !.hasst = FALSE]
                               ELSE w0)
                         ELSE [w0 EXCEPT !.wslen = 0, !.hasst = FALSE]
                   wb1 == FlushLine(wa)
                   wb1p == IF m = "Pre" THEN [wb1 EXCEPT !.prew = TRUE] ELSE wb1
                   wb2 == [CopyWs(wb1p) EXCEPT !.hasst = FALSE]
                   wb3 == HardWrap([wb2 EXCEPT !.word = <<>>], wb.word, TRUE, <<"none">>)
               IN [wb3 EXCEPT !.wordlen = 0]

\* the tab-stop loop of add_text
RECURSIVE TabLoop(_, _, _, _)
TabLoop(wb, pos, one, tag) ==
  IF pos % 8 = 0 /\ one THEN wb
  ELSE IF pos >= wb.width THEN TabLoop(FlushLine(wb), 0, one, tag)
  ELSE TabLoop([wb EXCEPT !.line = Append(@, <<32, 1, tag>>)], pos + 1, TRUE, tag)

\* one character of add_text; a = [wb, tag] carries the loop's local variable `tag`
AddChar(a, c, m, main, cont) ==
  LET wb == a.wb IN
  IF IsWs(c)
  THEN LET wb1 == IF wb.wordlen > 0 THEN FlushWord(wb, m) ELSE wb IN
       IF wb1.err THEN [a EXCEPT !.wb = wb1]
       ELSE IF Preserve(m)
       THEN IF c[1] = NL
            THEN [wb |-> [ForceFlushLine(wb1) EXCEPT !.wslen = 0, !.hasst = FALSE, !.prew = FALSE], tag |-> main]
            ELSE IF c[1] = TAB /\ wb1.width = 0          \* no column for even one space: the loop could not end
                 THEN IF ~wb1.ovf THEN [a EXCEPT !.wb = [wb1 EXCEPT !.err = TRUE]]
                      ELSE [a EXCEPT !.wb = ForceFlushLine([wb1 EXCEPT !.line = Append(@, <<32, 1, a.tag>>)])]
            ELSE IF c[1] = TAB THEN [a EXCEPT !.wb = TabLoop(wb1, SumW(wb1.line) + wb1.wslen, FALSE, a.tag)]
            ELSE IF CW(c) < 0 THEN [a EXCEPT !.wb = wb1]
            ELSE IF SumW(wb1.line) + wb1.wslen + CW(c) > wb1.width
                 THEN LET w2 == FlushLine([wb1 EXCEPT !.wslen = 0]) IN
                      IF DoWrap(m) THEN [a EXCEPT !.wb = [w2 EXCEPT !.prew = FALSE]]
                      ELSE [a EXCEPT !.wb = [w2 EXCEPT !.wslen = @ + CW(c), !.spacetag = a.tag, !.hasst = TRUE, !.prew = TRUE]]
                 ELSE [a EXCEPT !.wb = [wb1 EXCEPT !.wslen = @ + CW(c), !.spacetag = a.tag, !.hasst = TRUE]]
       ELSE IF SumW(wb1.line) > 0 /\ wb1.wslen = 0
            THEN [a EXCEPT !.wb = [wb1 EXCEPT !.wslen = 1, !.spacetag = a.tag, !.hasst = TRUE]]
            ELSE [a EXCEPT !.wb = wb1]
  ELSE IF CW(c) < 0 THEN a
  ELSE LET wl == wb.wordlen + CW(c)
           over == m = "Pre" /\ SumW(wb.line) + wb.wslen + wl > wb.width
           tg == IF over THEN cont ELSE a.tag
       IN [wb |-> [wb EXCEPT !.wordlen = wl, !.word = Append(@, <<c[1], c[2], tg>>), !.prew = IF over THEN TRUE ELSE @],
           tag |-> tg]

AddText(wb, s, m, main, cont) ==
  FoldLeft(LAMBDA a, c : IF a.wb.err THEN a ELSE AddChar(a, c, m, main, cont),
           [wb |-> wb, tag |-> IF wb.prew THEN cont ELSE main], s).wb

\* WrappedBlock::flush / into_lines
\* WrappedBlock::flush: white space still pending at the end of the block is discarded, and its tag with it
Finish(wb) == FlushLine([FlushWord(wb, "Normal") EXCEPT !.wslen = 0, !.hasst = FALSE])
WBEmpty(wb) == Len(wb.text) + SumW(wb.line) + wb.wordlen = 0      \* WrappedBlock::is_empty

(* ---- declarative reference for normal flow (C04): greedy filling of words ---- *)
\* words of a cell sequence: maximal runs of non-whitespace cells (no-width cells dropped)
SplitWords(cells) ==
  LET r == FoldLeft(LAMBDA a, c : IF IsWs(c) THEN (IF a.cur = <<>> THEN a ELSE [ws |-> Append(a.ws, a.cur), cur |-> <<>>])
                                  ELSE IF CW(c) < 0 THEN a ELSE [a EXCEPT !.cur = Append(@, c)],
                    [ws |-> <<>>, cur |-> <<>>], cells)
  IN IF r.cur = <<>> THEN r.ws ELSE Append(r.ws, r.cur)
\* cut an over-long word into maximal pieces; returns [lines, last, err]
RECURSIVE CutWord(_, _, _, _)
CutWord(cells, width, cur, acc) ==
  IF cells = <<>> THEN [lines |-> acc, last |-> cur, err |-> FALSE]
  ELSE LET c == Head(cells) IN
       IF SumW(cur) + CWp(c) <= width THEN CutWord(Tail(cells), width, Append(cur, c), acc)
       ELSE IF SumW(cur) = 0 /\ CWp(c) > width THEN [lines |-> acc, last |-> cur, err |-> TRUE]
       ELSE CutWord(cells, width, <<>>, Append(acc, cur))
\* greedy: returns [lines, err]
Greedy(words, width) ==
  LET r == FoldLeft(LAMBDA a, w :
             IF a.err THEN a
             ELSE IF a.cur # <<>> /\ SumW(a.cur) + 1 + SumW(w) <= width
                  THEN [a EXCEPT !.cur = @ \o <<C2(32)>> \o w]
             ELSE IF a.cur = <<>> /\ SumW(w) <= width THEN [a EXCEPT !.cur = w]
             ELSE LET base == IF a.cur = <<>> THEN a.lines ELSE Append(a.lines, a.cur)
                      cw == CutWord(w, width, <<>>, <<>>)
                  IN IF SumW(w) <= width THEN [a EXCEPT !.lines = base, !.cur = w]
                     ELSE [lines |-> base \o cw.lines, cur |-> cw.last, err |-> cw.err],
             [lines |-> <<>>, cur |-> <<>>, err |-> FALSE], words)
  IN [lines |-> IF r.cur = <<>> THEN r.lines ELSE Append(r.lines, r.cur), err |-> r.err]
=============================================================================
