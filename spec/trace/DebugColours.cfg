SPECIFICATION Spec
CONSTRAINT Check
CHECK_DEADLOCK FALSE
