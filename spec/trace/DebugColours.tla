---- MODULE DebugColours ----
(* debug aid: observed vs expected (letter, colour, background) for the first run of record IOEnv.IDX *)
EXTENDS KnownFindings, Json, IOUtils, TLCExt
VARIABLES l
Rec == ndJsonDeserialize(IOEnv.TRACE)
Init == l = 0
Step == l < 1 /\ l' = l + 1
Spec == Init /\ [][Step]_l
Check == l = 0 \/ LET c == Rec[1]  run == c.runs[1]
              obs == ObsColours(run.res)
              exp == ExpColoursSeq(Dom1(c, run), Dom1(c, run), <<>>, CssOf(c, run), <<>>, <<>>) IN
          PrintT(<<"OBS", [i \in 1..Len(obs) |-> obs[i][1]], "EXP", [i \in 1..Len(exp) |-> exp[i][1]], "AGREE", ModelAgrees(c, run),
                   "FIRSTDIFF", LET n == Min2(Len(obs), Len(exp)) d == {i \in 1..n : obs[i] # exp[i]} IN IF d = {} THEN <<>> ELSE LET i == CHOOSE m \in d : \A q \in d : m <= q IN <<i, obs[i], exp[i]>> >>)
====
