----------------------------- MODULE TraceModel -----------------------------
(* Trace validation, model speed: the specification's own rendering of the recorded abstract
   document (RenderDoc: DOM -> render tree -> estimates -> step machine -> finalise) is compared with
   the result observed from the real library, run by run.  Disagreement is *drift* (the model or the
   code moved), never by itself a violation: verdicts come from Props. *)
EXTENDS KnownFindings, Json, IOUtils, TLCExt
VARIABLES l
Rec == ndJsonDeserialize(IOEnv.TRACE)
N == Len(Rec)
\* panics / crashes are no result of the specification
Agree(c, run) == IF run.res.k \notin {"ok", "narrow"} THEN FALSE ELSE ModelAgrees(c, run)
InScope(c) == "crash" \notin DOMAIN c /\ \A i \in 1..Len(c.runs) : c.runs[i].w >= 0 /\ LET d == c.doms[c.runs[i].d] IN ~(Len(d) = 1 /\ d[1].k \in {"big", "none"})
AgreeCase(c) == \A i \in 1..Len(c.runs) : Agree(c, c.runs[i])
Init == l = 0 /\ TLCSet(2, {}) /\ TLCSet(3, 0)
Step == l <= N /\ l' = l + 1
Spec == Init /\ [][Step]_l
Check == /\ TLCSet(1, l)
         /\ (l = 0 \/ l > N \/ ~InScope(Rec[l]) \/ (TLCSet(3, TLCGet(3) + 1) /\ AgreeCase(Rec[l])) \/ TLCSet(2, TLCGet(2) \cup {l}))
Report == PrintT(<<"JUDGED", TLCGet(1) - 1, "INSCOPE", TLCGet(3), "BAD", TLCGet(2)>>) /\ TLCGet(1) = N + 1
=============================================================================
