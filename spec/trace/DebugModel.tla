----------------------------- MODULE DebugModel -----------------------------
(* debug aid: print the model's rendering of one recorded case (IOEnv.IDX) as JSON *)
EXTENDS Render, Json, IOUtils, TLCExt
VARIABLES l
Rec == ndJsonDeserialize(IOEnv.TRACE)
K == CHOOSE k \in 1..Len(Rec) : ToString(k) = IOEnv.IDX
Init == l = 1
Step == l < 1 /\ l' = l + 1
Spec == Init /\ [][Step]_l
Check == TRUE
Report == LET c == Rec[K] IN
          PrintT(<<"MODEL", ToJson([i \in 1..Len(c.runs) |-> RenderDoc(c.doms[c.runs[i].d], c.runs[i].cfg, c.runs[i].w)])>>)
=============================================================================
