SPECIFICATION Spec
CONSTRAINT Check
POSTCONDITION Report
CHECK_DEADLOCK FALSE
