----------------------------- MODULE TraceSteps -----------------------------
(* Trace validation, step speed.  Each record is a case with one run whose execution was recorded
   by the hook in the library (cfg html2text_verif): one event per do_render_node call =
      << kind, depth, width, nlines, at_block_end, |ann|, pre_depth, |ws|, |filters|, |pending frags|,
         has-wrapping, wrap width, wrapped lines, line width, wordlen, wslen, pre_wrapped, |links|,
         estimate size, estimate min_width, estimate prefix_size >>
   i.e. the node about to be rendered, a scalar projection of the renderer state at that point, and the size
   estimate cached in the node (computed for the whole tree before rendering starts).

   The trace specification runs the step machine of Render.tla one work item per TLC state:
     Load      the render tree of the recorded document becomes the work list
     Silent    a work item without a hook (exit closures, prefn, unwind): RStep, no event consumed
     Node      the next work item is a node / row / cell: the next event must name the same kind and
               carry the same projection of the specification's state; then RStep
     Done      the work list is empty (or the step machine raised TooNarrow): all events must have
               been consumed and Finalise must give the recorded result
   A record on which no further action can be taken is recorded with the position and the first
   differing field, and validation continues with the next record.  Step invariants (C02: no
   finished line wider than its renderer; C09: stacks balanced at the end) are evaluated on every
   state along the way. *)
EXTENDS KnownFindings, Json, IOUtils, TLCExt
VARIABLES l, k, st
Rec == ndJsonDeserialize(IOEnv.TRACE)
N == Len(Rec)
NoSt == [none |-> TRUE]
Loaded == "none" \notin DOMAIN st
Run1 == Rec[l].runs[1]
CfS == Cf(Run1.cfg)
DomS == IF "css" \in DOMAIN Rec[l].meta THEN Styled(Rec[l].doms[Run1.d], CssOf(Rec[l], Run1)) ELSE Rec[l].doms[Run1.d]
Steps == Run1.steps
B2I(b) == IF b THEN 1 ELSE 0
Proj(s) ==
  LET top == Top(s)  wb == top.wb  has == ~IsNull(wb) IN
  << Len(s.stk), top.width, Len(top.lines), B2I(top.abe), Len(top.ann), top.pre, Len(top.ws), top.filt, Len(top.pend),
     B2I(has), IF has THEN wb.width ELSE 0, IF has THEN Len(wb.text) ELSE 0, IF has THEN SumW(wb.line) ELSE 0,
     IF has THEN wb.wordlen ELSE 0, IF has THEN wb.wslen ELSE 0, IF has THEN B2I(wb.prew) ELSE 0, Len(s.links) >>
FieldNames == << "depth", "width", "nlines", "at_block_end", "ann", "pre_depth", "ws", "filters", "pending_frags",
                 "wrapping", "wrap_width", "wrapped_lines", "line_width", "wordlen", "wslen", "pre_wrapped", "links" >>
HeadKind(s) == LET it == Head(s.todo) IN
               IF it.e = "node" THEN it.n.kind ELSE IF it.e = "row" THEN "TableRow" ELSE IF it.e = "cell" THEN "TableCell" ELSE ""
Running == Loaded /\ st.err = "" /\ st.todo # <<>>
\* first field in which the event and the projection differ ("" = none)
Diff(ev, s) ==
  IF ev[1] # HeadKind(s) THEN "kind:" \o ev[1] \o "/" \o HeadKind(s)
  ELSE LET p == Proj(s)
           bad == {i \in 1..17 : ev[i + 1] # p[i]} IN
       IF bad # {} THEN LET i == CHOOSE m \in bad : \A q \in bad : m <= q IN
                        FieldNames[i] \o ":" \o ToString(ev[i + 1]) \o "/" \o ToString(p[i])
       \* the node's size estimate as the library cached it (events of 21 entries; -1 = none) against Tree!Est
       ELSE IF Len(ev) >= 21 /\ ev[19] >= 0 /\ Head(s.todo).e = "node"
       THEN LET e == Est(Head(s.todo).n, CfS) IN
            IF ev[19] # e.size THEN "est_size:" \o ToString(ev[19]) \o "/" \o ToString(e.size)
            ELSE IF ev[20] # e.minw THEN "est_min_width:" \o ToString(ev[20]) \o "/" \o ToString(e.minw)
            ELSE IF ev[21] # e.pre THEN "est_prefix_size:" \o ToString(ev[21]) \o "/" \o ToString(e.pre)
            ELSE ""
       ELSE ""
ResultAgrees(res) ==
  LET m == Finalise(st, CfS)
      rich == Run1.route \in {"lines", "staged_lines", "restaged_lines"} /\ Run1.cfg.deco = "rich" IN
  /\ m.k = res.k
  /\ m.k = "ok" => IF rich THEN m.lines = res.lines
                   ELSE [i \in 1..Len(m.lines) |-> Plain(NoFrags(m.lines[i]))] = [i \in 1..Len(res.lines) |-> Plain(NoFrags(res.lines[i]))]
\* step invariants on the specification state reached along the recorded execution
StepInv(s) ==
  /\ (~CfS.overflow /\ CfS.wraplinks) =>
        \A i \in 1..Len(s.stk) : LET r == s.stk[i] IN
           \A j \in 1..Len(r.lines) : (IF r.lines[j].b THEN Len(r.lines[j].c) ELSE SumW(r.lines[j].c)) <= r.width
  /\ s.todo = <<>> => (Len(s.stk) = 1 /\ s.stk[1].ann = <<>> /\ s.stk[1].filt = 0 /\ s.stk[1].ws = <<>> /\ s.stk[1].pre = 0)
Bad(why) == TLCSet(2, TLCGet(2) \cup {<<l, why>>})

Init == l = 0 /\ k = 0 /\ st = NoSt /\ TLCSet(2, {}) /\ TLCSet(3, 0)
Load == /\ ~Loaded /\ l < N
        /\ l' = l + 1 /\ k' = 0
        /\ LET c == Rec[l + 1]  run == c.runs[1]  cf == Cf(run.cfg)
               dom == IF "css" \in DOMAIN c.meta THEN Styled(c.doms[run.d], CssOf(c, run)) ELSE c.doms[run.d]
               s0 == Init0(RenderTreeOf(dom, cf), run.w, cf) IN
           st' = IF run.w = 0 THEN [s0 EXCEPT !.err = "narrow"] ELSE s0
Silent == /\ Running /\ HeadKind(st) = ""
          /\ st' = RStep(st, CfS) /\ UNCHANGED <<l, k>>
NodeStep ==
        /\ Running /\ HeadKind(st) # ""
        /\ IF k < Len(Steps) /\ Diff(Steps[k + 1], st) = "" /\ StepInv(st)
           THEN st' = RStep(st, CfS) /\ k' = k + 1 /\ TLCSet(3, TLCGet(3) + 1)
           ELSE /\ Bad(IF k >= Len(Steps) THEN "event-missing:" \o HeadKind(st) \o "@" \o ToString(k + 1)
                       ELSE IF ~StepInv(st) THEN "step-invariant@" \o ToString(k + 1)
                       ELSE Diff(Steps[k + 1], st) \o "@" \o ToString(k + 1))
                /\ st' = NoSt /\ k' = 0
        /\ UNCHANGED l
Done == /\ Loaded /\ ~Running
        /\ IF k = Len(Steps) /\ ResultAgrees(Run1.res) /\ (st.err # "" \/ StepInv(st)) THEN TRUE
           ELSE Bad(IF k # Len(Steps) THEN "events-left:" \o ToString(Len(Steps) - k)
                    ELSE IF ~ResultAgrees(Run1.res) THEN "result" ELSE "step-invariant@end")
        /\ st' = NoSt /\ k' = 0 /\ UNCHANGED l
Next == Load \/ Silent \/ NodeStep \/ Done
Spec == Init /\ [][Next]_<<l, k, st>>
Mark == TLCSet(1, l)
Report == PrintT(<<"JUDGED", TLCGet(1), "EVENTS", TLCGet(3), "BAD", TLCGet(2)>>) /\ TLCGet(1) = N
=============================================================================
