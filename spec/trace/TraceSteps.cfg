SPECIFICATION Spec
CONSTRAINT Mark
POSTCONDITION Report
CHECK_DEADLOCK FALSE
