----------------------------- MODULE TraceProps -----------------------------
(* Trace validation, predicate speed: every recorded case (real executions of the library) is
   judged by the property predicate named in IOEnv.PROP.  One TLC state per case. *)
EXTENDS KnownFindings, Json, IOUtils, TLCExt
VARIABLES l
Rec == ndJsonDeserialize(IOEnv.TRACE)
N == Len(Rec)
PROP == IOEnv.PROP
Judge(c) ==
  CASE PROP = "C02" -> P_C02(c)
    [] PROP = "C03" -> P_C03(c)
    [] PROP = "C04" -> P_C04(c)
    [] PROP = "C12" -> P_C12(c)
    [] PROP = "C11" -> P_C11(c)
    [] PROP = "C13" -> P_C13(c)
    [] PROP = "C15" -> P_C15(c)
    [] PROP = "C14" -> P_C14(c)
    [] PROP = "C07" -> P_C07(c)
    [] PROP = "C08" -> P_C08(c)
    [] PROP = "C09" -> P_C09(c)
    [] PROP = "C05" -> P_C05(c)
    [] PROP = "C06" -> P_C06(c)
    [] PROP = "C10" -> P_C10(c)
    [] PROP = "C16" -> P_C16(c)
    [] PROP = "C01" -> P_C01(c)
    [] PROP = "C17" -> P_C17(c)
    [] PROP = "C18" -> P_C18(c)
    [] PROP = "C19" -> P_C19(c)
    [] PROP = "C20" -> P_C20(c)
    [] OTHER -> FALSE
Init == l = 0 /\ TLCSet(2, {})
Step == l <= N /\ l' = l + 1
Spec == Init /\ [][Step]_l
Check == /\ TLCSet(1, l)
         /\ (l = 0 \/ l > N \/ ("crash" \in DOMAIN Rec[l] /\ PROP # "C01") \/ ("oversize" \in DOMAIN Rec[l] /\ PROP # "C01") \/ Judge(Rec[l]) \/ TLCSet(2, TLCGet(2) \cup {<<l, KFClass(PROP, Rec[l])>>}))
Report == PrintT(<<"JUDGED", TLCGet(1) - 1, "BAD", TLCGet(2)>>) /\ TLCGet(1) = N + 1
=============================================================================
