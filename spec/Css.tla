--------------------------------- MODULE Css ---------------------------------
(* CSS support (src/css.rs, src/lib.rs WithSpec / ComputedStyle) at the level of parsed rules.

   sheet   = sequence of rules      rule = [sels |-> Seq(selector), decls |-> Seq(decl)]
   selector = sequence of compounds, left to right; compound =
              [comb |-> "" | "desc" | "child", name |-> element name or "", star |-> BOOLEAN,
               cls |-> Seq(class), id |-> id or "", nth |-> <<>> | <<a, b>>]
   decl    = [prop |-> "color" | "bg" | "display" | "ws" | "height" | "overflow" | "unknown",
              val |-> colour <<r, g, b>> | "none" | "block" | "pre" | ... , imp |-> BOOLEAN]
   A styled document carries, per element, `sty` = what the renderer reads (Tree!NoSty shape).

   Two descriptions are given for selector matching and for the cascade: the declarative CSS meaning
   (RefMatch, RefCascade) and the transcription of the code (DoMatches over the reversed component
   list, the MaybeUpdate fold in the code's visiting order).  mc/MC_Selector and mc/MC_Cascade check
   them against each other; the predicates of Props use the declarative ones. *)
EXTENDS Tree

(* ---------------- documents as trees with addressable nodes ---------------- *)
\* a node is addressed by its path (sequence of child indices) from the list of top-level nodes
RECURSIVE NodeAt(_, _)
NodeAt(dom, p) == IF Len(p) = 1 THEN dom[p[1]] ELSE NodeAt(dom[p[1]].c, Tail(p))
ClassesOf(x) == {x[i] : i \in 1..Len(x)}              \* the class attribute, split at white space by the harness
KidsAt(dom, p) == IF p = <<>> THEN dom ELSE NodeAt(dom, p).c
ParentPath(p) == Front(p)
\* 1-based index of the element among its element siblings
ElemIndex(dom, p) == LET sibs == KidsAt(dom, ParentPath(p)) IN
                     Cardinality({j \in 1..Last(p) : sibs[j].k = "e"})
HasClass(n, cl) == HasAttr(n, "class") /\ cl \in ClassesOf(n.a.class)

(* ---------------- selector semantics (declarative) ---------------- *)
NthOK(a, b, idx) == IF a = 0 THEN idx = b
                    ELSE \E n \in 0..(idx + 40) : idx = a * n + b
CompoundOK(dom, p, c) ==
  LET n == NodeAt(dom, p) IN
  /\ n.k = "e"
  /\ c.name = "" \/ c.name = n.n
  /\ \A i \in 1..Len(c.cls) : HasClass(n, c.cls[i])
  /\ c.id = "" \/ (HasAttr(n, "id") /\ n.a.id = c.id)
  /\ c.nth = <<>> \/ NthOK(c.nth[1], c.nth[2], ElemIndex(dom, p))
RECURSIVE RefMatch(_, _, _)
RefMatch(dom, sel, p) ==
  LET k == Len(sel)  c == sel[k] IN
  /\ p # <<>> /\ CompoundOK(dom, p, c)
  /\ IF k = 1 THEN TRUE
     ELSE LET rest == SubSeq(sel, 1, k - 1) IN
          IF c.comb = "child" THEN RefMatch(dom, rest, ParentPath(p))
          ELSE \E m \in 1..(Len(p) - 1) : RefMatch(dom, rest, SubSeq(p, 1, m))

(* ---------------- Selector::do_matches (operational) ---------------- *)
\* the component list as parse_selector builds it: per compound Element?/Star?, Class*, Hash?, NthChild?;
\* a combinator between compounds; the whole list reversed (right first)
Flat(sel) ==
  LET comp(c) == (IF c.name # "" THEN << [k |-> "Element", v |-> c.name] >> ELSE <<>>)
                 \o (IF c.star THEN << [k |-> "Star"] >> ELSE <<>>)
                 \o [j \in 1..Len(c.cls) |-> [k |-> "Class", v |-> c.cls[j]]]
                 \o (IF c.id # "" THEN << [k |-> "Hash", v |-> c.id] >> ELSE <<>>)
                 \o (IF c.nth # <<>> THEN << [k |-> "Nth", a |-> c.nth[1], b |-> c.nth[2]] >> ELSE <<>>)
      fwd == Concat([k \in 1..Len(sel) |->
               (IF k > 1 THEN << [k |-> IF sel[k].comb = "child" THEN "CombChild" ELSE "CombDesc"] >> ELSE <<>>) \o comp(sel[k])])
  IN Reverse(fwd)
Abs(x) == IF x < 0 THEN -x ELSE x
Sgn(x) == IF x < 0 THEN -1 ELSE 1
Quot(x, y) == Sgn(x) * Sgn(y) * (Abs(x) \div Abs(y))      \* Rust `/` and `%` (truncating)
Rem(x, y) == x - y * Quot(x, y)
RECURSIVE DoMatches(_, _, _)
DoMatches(dom, comps, p) ==       \* p = <<>> is the Document node
  IF comps = <<>> THEN TRUE
  ELSE LET c == Head(comps)  rest == Tail(comps)
           isEl == p # <<>> /\ NodeAt(dom, p).k = "e" IN
       CASE c.k = "Class"   -> isEl /\ HasClass(NodeAt(dom, p), c.v) /\ DoMatches(dom, rest, p)
         [] c.k = "Hash"    -> isEl /\ HasAttr(NodeAt(dom, p), "id") /\ NodeAt(dom, p).a.id = c.v /\ DoMatches(dom, rest, p)
         [] c.k = "Element" -> isEl /\ NodeAt(dom, p).n = c.v /\ DoMatches(dom, rest, p)
         [] c.k = "Star"    -> isEl /\ DoMatches(dom, rest, p)
         [] c.k = "CombChild" -> p # <<>> /\ DoMatches(dom, rest, ParentPath(p))
         [] c.k = "CombDesc"  -> p # <<>> /\ (DoMatches(dom, rest, ParentPath(p)) \/ DoMatches(dom, comps, ParentPath(p)))
         [] c.k = "Nth" -> /\ isEl
                           /\ LET off == ElemIndex(dom, p) - c.b IN
                              IF c.a = 0 THEN off = 0 /\ DoMatches(dom, rest, p)
                              ELSE Rem(off, c.a) = 0 /\ Quot(off, c.a) >= 0 /\ DoMatches(dom, rest, p)
Matches(dom, sel, p) == DoMatches(dom, Flat(sel), p)

(* ---------------- specificity and the cascade ---------------- *)
\* Specificity = <<inline, id, class (+ pseudo-class), type>>
SpecOf(sel) == << 0,
                  Cardinality({k \in 1..Len(sel) : sel[k].id # ""}),
                  SumSeq([k \in 1..Len(sel) |-> Len(sel[k].cls) + (IF sel[k].nth # <<>> THEN 1 ELSE 0)]),
                  Cardinality({k \in 1..Len(sel) : sel[k].name # ""}) >>
InlineSpec == <<1, 0, 0, 0>>
SpecLess(a, b) == \E i \in 1..4 : a[i] < b[i] /\ \A j \in 1..(i - 1) : a[j] = b[j]
\* origins: 1 agent, 2 user, 3 author
NoVal == [has |-> FALSE, val |-> <<>>, imp |-> FALSE, origin |-> 0, spec |-> <<0, 0, 0, 0>>]
\* WithSpec::maybe_update: importance and origin first, then specificity; a later declaration wins ties
Level(imp, origin) == IF imp THEN 7 - origin ELSE origin     \* agent1 user2 author3 author!4 user!5 agent!6
MaybeUpdate(cur, d) ==
  IF cur.has /\ (Level(d.imp, d.origin) < Level(cur.imp, cur.origin)
                 \/ (Level(d.imp, d.origin) = Level(cur.imp, cur.origin) /\ SpecLess(d.spec, cur.spec)))
  THEN cur
  ELSE [has |-> TRUE, val |-> d.val, imp |-> d.imp, origin |-> d.origin, spec |-> d.spec]
\* reference: the applicable declaration that is maximal in (level, specificity, order of appearance)
RefCascade(ds) ==
  IF ds = <<>> THEN NoVal
  ELSE LET Beats(i, j) == \/ Level(ds[i].imp, ds[i].origin) > Level(ds[j].imp, ds[j].origin)
                          \/ (Level(ds[i].imp, ds[i].origin) = Level(ds[j].imp, ds[j].origin)
                              /\ (SpecLess(ds[j].spec, ds[i].spec) \/ (ds[i].spec = ds[j].spec /\ i > j)))
           w == CHOOSE i \in 1..Len(ds) : \A j \in 1..Len(ds) : j = i \/ Beats(i, j)
       IN [has |-> TRUE, val |-> ds[w].val, imp |-> ds[w].imp, origin |-> ds[w].origin, spec |-> ds[w].spec]

(* ---------------- computed style of one element ---------------- *)
\* with document CSS enabled: the declarations of the style attribute and the legacy color / bgcolor
\* attributes, in attribute order (the harness abstracts canonical attribute values into declarations;
\* anything else is marked unparsed and such documents are outside the predicates' scope)
InlineDecls(n, doc) ==
  IF ~doc THEN <<>>
  ELSE Concat([i \in 1..Len(n.ao) |->
         CASE n.ao[i] = "style" -> IF n.a.style.ok THEN n.a.style.d ELSE <<>>
           [] n.ao[i] = "color" -> IF n.a.color.ok THEN << [prop |-> "color", val |-> n.a.color.v, imp |-> FALSE] >> ELSE <<>>
           [] n.ao[i] = "bgcolor" -> IF n.a.bgcolor.ok THEN << [prop |-> "bg", val |-> n.a.bgcolor.v, imp |-> FALSE] >> ELSE <<>>
           [] OTHER -> <<>>])
\* css = [agent, user, author] sheets; `inl` the declarations of the style attribute (with doc CSS on)
\* styles_from_properties: height:0 + overflow:hidden => display:none with default importance
Effective(decls) ==
  LET h0 == \E i \in 1..Len(decls) : decls[i].prop = "height" /\ decls[i].val = 0
      oh == \E i \in 1..Len(decls) : decls[i].prop = "overflow" /\ decls[i].val = "hidden"
      kept == SelectSeq(decls, LAMBDA d : d.prop \in {"color", "bg", "ws", "content"} \/ (d.prop = "display" /\ d.val = "none"))
  IN kept \o (IF h0 /\ oh THEN << [prop |-> "display", val |-> "none", imp |-> FALSE] >> ELSE <<>>)
\* the pseudo-element of a selector ("" | "before" | "after"; carried by its last compound)
PeOf(sel) == IF sel # <<>> /\ "pe" \in DOMAIN sel[Len(sel)] THEN sel[Len(sel)].pe ELSE ""
\* the agent rules that do_decorate() installs: em / dt / strong / code ::before and ::after
DecoElem(nm) == nm \in {"em", "dt", "strong", "code"}
DecoText(nm) == CASE nm \in {"em", "dt"} -> << <<42, 1>> >> [] nm = "strong" -> << <<42, 1>>, <<42, 1>> >> [] OTHER -> << <<96, 1>> >>
\* all declarations of property `prop` for the element itself (pe = "") or for one of its pseudo-elements
\* that apply, in the order the code visits them
ApplicablePe(dom, p, css, inl, prop, pe) ==
  LET fromSheet(sheet, origin) ==
        Concat([r \in 1..Len(sheet) |->
          LET eff == Effective(sheet[r].decls) IN
          IF eff = <<>> THEN <<>>
          ELSE Concat([s \in 1..Len(sheet[r].sels) |->
                 IF PeOf(sheet[r].sels[s]) = pe /\ RefMatch(dom, sheet[r].sels[s], p)
                 THEN LET ds == SelectSeq(eff, LAMBDA d : d.prop = prop) IN
                      [i \in 1..Len(ds) |-> [val |-> ds[i].val, imp |-> ds[i].imp, origin |-> origin, spec |-> SpecOf(sheet[r].sels[s])]]
                 ELSE <<>>])])
      inlds == IF pe = "" THEN SelectSeq(Effective(inl), LAMBDA d : d.prop = prop) ELSE <<>>
      n == NodeAt(dom, p)
      deco == IF pe # "" /\ prop = "content" /\ "decorate" \in DOMAIN css /\ css.decorate /\ n.k = "e" /\ n.h /\ DecoElem(n.n)
              THEN << [val |-> DecoText(n.n), imp |-> FALSE, origin |-> 1, spec |-> <<0, 0, 0, 1>>] >> ELSE <<>>
  IN deco \o fromSheet(css.agent, 1) \o fromSheet(css.user, 2) \o fromSheet(css.author, 3)
     \o [i \in 1..Len(inlds) |-> [val |-> inlds[i].val, imp |-> inlds[i].imp, origin |-> 3, spec |-> InlineSpec]]
Applicable(dom, p, css, inl, prop) == ApplicablePe(dom, p, css, inl, prop, "")
Computed(dom, p, css, inl, prop) == RefCascade(Applicable(dom, p, css, inl, prop))
\* the text of ::before / ::after (cells; <<>> if none)
ContentOf(dom, p, css, pe) == LET w == RefCascade(ApplicablePe(dom, p, css, <<>>, "content", pe)) IN IF w.has THEN w.val ELSE <<>>
ComputedOp(dom, p, css, inl, prop) == FoldLeft(MaybeUpdate, NoVal, Applicable(dom, p, css, inl, prop))

\* the style record the renderer reads
StyOf2(dom, p, css, inl) ==
  LET fg == Computed(dom, p, css, inl, "color")
      bg == Computed(dom, p, css, inl, "bg")
      di == Computed(dom, p, css, inl, "display")
      ws == Computed(dom, p, css, inl, "ws") IN
  [pre |-> FALSE, ws |-> IF ws.has THEN ws.val ELSE "",
   fg |-> IF fg.has THEN <<"Fg", fg.val[1], fg.val[2], fg.val[3]>> ELSE <<>>,
   bg |-> IF bg.has THEN <<"Bg", bg.val[1], bg.val[2], bg.val[3]>> ELSE <<>>,
   none |-> di.has /\ di.val = "none",
   cset |-> TRUE, cb |-> ContentOf(dom, p, css, "before"), ca |-> ContentOf(dom, p, css, "after")]
\* annotate every element of the document with its computed style (css.inline: path -> decls)
RECURSIVE StyleSeq(_, _, _, _)
StyleSeq(dom, ns, prefix, css) ==
  [i \in 1..Len(ns) |->
     IF ns[i].k # "e" THEN ns[i]
     ELSE LET p == Append(prefix, i)
              inl == InlineDecls(ns[i], css.doc) IN
          [ns[i] EXCEPT !.c = StyleSeq(dom, ns[i].c, p, css)] @@ [sty |-> StyOf2(dom, p, css, inl)]]
Styled(dom, css) == StyleSeq(dom, dom, <<>>, css)

(* ---------------- display: none ---------------- *)
\* Delete(d, Hidden): the document without the subtrees whose root has computed display none
RECURSIVE DeleteSeq(_, _, _, _)
DeleteSeq(dom, ns, prefix, css) ==
  Concat([i \in 1..Len(ns) |->
     IF ns[i].k # "e" THEN << ns[i] >>
     ELSE LET p == Append(prefix, i)
              inl == InlineDecls(ns[i], css.doc)
              di == Computed(dom, p, css, inl, "display") IN
          IF di.has /\ di.val = "none" THEN <<>>
          ELSE << [ns[i] EXCEPT !.c = DeleteSeq(dom, ns[i].c, p, css)] >>])
DeleteHidden(dom, css) == DeleteSeq(dom, dom, <<>>, css)
=============================================================================
