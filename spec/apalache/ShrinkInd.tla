----------------------------- MODULE ShrinkInd -----------------------------
(* The column shrink loop of render_table_tree for a table of three columns with *unbounded* widths:
   an inductive invariant, discharged by Apalache, that the loop never decrements a column of width 0
   (the subtraction that would overflow) and never shrinks a column below its minimum width, from any
   state that satisfies the loop's entry condition (the minimum widths fit: min_size <= width).
   MC_Loops checks the same loop exhaustively for widths <= MaxW with TLC, together with termination. *)
EXTENDS Integers

VARIABLES
  \* @type: Int -> Int;
  cw,
  \* @type: Int -> Int;
  minw,
  \* @type: Int;
  width,
  \* @type: Bool;
  done,
  \* @type: Bool;
  err

Cols == 1..3
\* @type: (Int -> Int) => Int;
Sum3(f) == f[1] + f[2] + f[3]
Max2(a, b) == IF a > b THEN a ELSE b
Slack(i) == Max2(cw[i] - minw[i], 0)
\* the loop's choice: largest slack, then largest width, then leftmost (a total order on the columns)
Better(i, j) == \/ Slack(i) > Slack(j)
                \/ Slack(i) = Slack(j) /\ cw[i] > cw[j]
                \/ Slack(i) = Slack(j) /\ cw[i] = cw[j] /\ i < j
Best(i) == \A j \in Cols : j = i \/ Better(i, j)

IndInv ==
  /\ cw \in [Cols -> Nat] /\ minw \in [Cols -> Nat] /\ width \in Nat
  /\ done \in BOOLEAN /\ err \in BOOLEAN
  /\ \A i \in Cols : cw[i] >= minw[i]
  /\ Sum3(minw) + 2 <= width             \* entry condition of the side-by-side layout
  /\ ~err
IndInit == IndInv
Init == IndInv /\ ~done

Next ==
  \/ /\ ~done /\ Sum3(cw) + 2 <= width /\ done' = TRUE /\ UNCHANGED <<cw, minw, width, err>>
  \/ /\ ~done /\ Sum3(cw) + 2 > width
     /\ \E b \in Cols :
          /\ Best(b)
          /\ IF cw[b] = 0 THEN done' = TRUE /\ err' = TRUE /\ UNCHANGED cw         \* `col_widths[i] -= 1` on 0
             ELSE cw' = [cw EXCEPT ![b] = cw[b] - 1] /\ UNCHANGED <<done, err>>
     /\ UNCHANGED <<minw, width>>
  \/ done /\ UNCHANGED <<cw, minw, width, done, err>>

\* what the invariant gives: no overflow, no column below its minimum
Safe == ~err /\ \A i \in Cols : cw[i] >= minw[i]
=============================================================================
