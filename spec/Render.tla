------------------------------- MODULE Render -------------------------------
(* The renderer (src/lib.rs do_render_node + render_table_*, src/render/text_renderer.rs
   TextRenderer / SubRenderer / BorderHoriz) as a step machine.

   State  st = [stk, links, todo, acc, err]
     stk    stack of sub-renderers (TextRenderer.subrender)
              sub = [width, lines, wb, abe, ws, filt, ann, pend, pre]
              line = [b |-> is-border, c |-> items | segment codes, t |-> tag of a border]
     links  global list of link targets (TextRenderer.links)
     todo   pending work, head first: the explicit stack of tree_map_reduce, flattened
     acc    stack of lists of finished cell renderers (the `children` vectors of table rows)
     err    "" | "narrow" (Err(TooNarrow)) | "panic:<site>"
   RStep(st, cf) performs exactly one work item: one do_render_node call, one prefn/postfn, or one
   `cons` closure.  mc/MC_Render*.tla run it one TLC state per item; RenderDoc folds it. *)
EXTENDS Tree

\* a function over 1..n as a concrete tuple: every element is evaluated exactly once (TLC evaluates
\* [i \in S |-> e] lazily and re-evaluates e at every application)
Strict(f) == f \o <<>>
(* ---------------- sub-renderer primitives ---------------- *)
TL(items) == [b |-> FALSE, c |-> items, t |-> <<>>]
BL(segs, tag) == [b |-> TRUE, c |-> segs, t |-> tag]
NewSub(w, ann) == [width |-> w, lines |-> <<>>, wb |-> Null, abe |-> FALSE, ws |-> <<>>, filt |-> 0,
                   ann |-> ann, pend |-> <<>>, pre |-> 0, err |-> FALSE, panic |-> FALSE]
WsMode(r) == IF r.ws = <<>> THEN "Normal" ELSE r.ws[Len(r.ws)]
\* add_line: pending fragment markers are prepended to the next text line
AddLine(r, ln) == IF ln.b \/ r.pend = <<>> THEN [r EXCEPT !.lines = Append(@, ln)]
                  ELSE [r EXCEPT !.lines = Append(@, TL(r.pend \o ln.c)), !.pend = <<>>]
AddLines(r, lns) == FoldLeft(AddLine, r, lns)
Flush(r) ==   \* flush_wrapping
  IF IsNull(r.wb) THEN r
  ELSE LET trailing == IF HasStr(r.wb.word) THEN <<>> ELSE r.wb.word      \* take_trailing_fragments
           f == Finish([r.wb EXCEPT !.word = IF HasStr(r.wb.word) THEN @ ELSE <<>>])
           r1 == AddLines([r EXCEPT !.wb = Null, !.err = @ \/ f.err], [i \in 1..Len(f.text) |-> TL(f.text[i])])
       IN [r1 EXCEPT !.pend = @ \o trailing]
HasContent(r) == \E i \in 1..Len(r.lines) : ~r.lines[i].b /\ HasStr(r.lines[i].c)
AddEmptyLine(r) == [AddLine(Flush(r), TL(<<>>)) EXCEPT !.abe = FALSE]
StartBlock(r) == LET r1 == Flush(r)
                     r2 == IF HasContent(r1) THEN AddEmptyLine(r1) ELSE r1
                 IN [r2 EXCEPT !.abe = FALSE]
NewLineHard(r) == IF IsNull(r.wb) THEN AddEmptyLine(r)
                  ELSE IF r.wb.wordlen = 0 /\ SumW(r.wb.line) = 0 THEN AddEmptyLine(r) ELSE Flush(r)
\* filter_text_strikeout: a mark after every visible character that is not already struck out
StrikeFilter(s) == FoldLeft(LAMBDA acc, i : IF CW(s[i]) > 0 /\ ~IsWs(s[i]) /\ (i = Len(s) \/ s[i + 1][1] # STRIKE)
                                            THEN acc \o << s[i], <<STRIKE, 0>> >> ELSE Append(acc, s[i]),
                            <<>>, [i \in 1..Len(s) |-> i])
WrapWidth(r, cf) == IF cf.maxwrap >= 0 THEN Min2(Max2(cf.maxwrap, 1), r.width) ELSE r.width    \* max_wrap_width(0) counts as 1
GetWB(r, cf) == IF IsNull(r.wb) THEN NewWB(WrapWidth(r, cf), cf.pad, cf.overflow) ELSE r.wb
AddInlineText(r, s0, cf) ==
  IF ~Preserve(WsMode(r)) /\ r.abe /\ AllWs(s0) THEN r
  ELSE LET r1 == IF r.abe THEN StartBlock(r) ELSE r
           s == FoldLeft(LAMBDA acc, k : StrikeFilter(acc), s0, [k \in 1..r.filt |-> k])
           main == IF r1.pre > 0 THEN Append(r1.ann, Tag(cf, <<"P", 0>>)) ELSE r1.ann
           cont == IF r1.pre > 0 THEN Append(r1.ann, Tag(cf, <<"P", 1>>)) ELSE r1.ann
           wb1 == AddText(GetWB(r1, cf), s, WsMode(r1), main, cont)
       IN [r1 EXCEPT !.wb = wb1, !.err = @ \/ wb1.err]
RecordFrag(r, name, cf) == [r EXCEPT !.wb = [GetWB(r, cf) EXCEPT !.word = Append(@, <<-1, 0, << <<"F", name>> >> >>)]]
PushAnn(r, t) == [r EXCEPT !.ann = Append(@, t)]
PopAnn(r) == [r EXCEPT !.ann = Front(@)]
WithTag(cells, tag) == [i \in 1..Len(cells) |-> <<cells[i][1], cells[i][2], tag>>]
\* width_minus: "narrow" | width
WidthMinus(r, prefix, minw, cf) ==
  LET nw == Max2(r.width - prefix, 0) IN
  IF nw < minw /\ ~cf.overflow THEN -1 ELSE Max2(nw, minw)
BorderItems(ln) == WithTag([i \in 1..Len(ln.c) |-> C2(ln.c[i])], ln.t)
\* append_subrender: lines zipped with prefixes; border lines become text
\* (the prefix has to fit too: a block without any width still gets its prefix, and without
\*  allow_width_overflow a line wider than the parent is TooNarrow)
AppendSub(parent, sub, first, rest, ovf) ==
  LET p1 == Flush(parent)
      s1 == Flush(sub)
      tag == p1.ann
      pl == [i \in 1..Len(s1.lines) |->
               LET pre == WithTag(IF i = 1 THEN first ELSE rest, tag)
                   ln == s1.lines[i] IN
               IF ln.b THEN TL(pre \o WithTag([k \in 1..Len(ln.c) |-> C2(ln.c[k])], tag))
               ELSE TL(pre \o ln.c)]
      wide == ~ovf /\ \E i \in 1..Len(pl) : SumW(pl[i].c) > p1.width
      merged == AddLines([p1 EXCEPT !.err = @ \/ s1.err \/ wide], pl)
  IN [merged EXCEPT !.pend = @ \o s1.pend]      \* markers after the sub-renderer's last line stay pending
SubEmpty(r) == r.lines = <<>> /\ (IsNull(r.wb) \/ WBEmpty(r.wb))     \* SubRenderer::empty

(* ---------------- border algebra (BorderHoriz) ---------------- *)
StretchTo(segs, w) == IF Len(segs) >= w THEN segs ELSE segs \o Rep(GS, w - Len(segs))
JoinAbove(segs, x) ==   \* x is 0-based
  LET s == StretchTo(segs, x + 1)  p == s[x + 1] IN
  [s EXCEPT ![x + 1] = IF p \in {GS, GA} THEN GA ELSE IF p \in {GB, GX} THEN GX ELSE p]
JoinBelow(segs, x) ==
  LET s == StretchTo(segs, x + 1)  p == s[x + 1] IN
  [s EXCEPT ![x + 1] = IF p \in {GS, GB} THEN GB ELSE IF p \in {GA, GX} THEN GX ELSE p]
\* merge_from_below (below = TRUE) / merge_from_above
MergeFrom(segs, other, pos, below) ==
  FoldLeft(LAMBDA s, i : IF other[i] \in {GA, GB, GX}
                         THEN (IF below THEN JoinBelow(s, i - 1 + pos) ELSE JoinAbove(s, i - 1 + pos))
                         ELSE s,
           segs, [i \in 1..Len(other) |-> i])
VertAbove(segs) == [i \in 1..Len(segs) |-> IF segs[i] \in {GA, GX} THEN C2(BAR) ELSE C2(32)]

(* ---------------- tables ---------------- *)
PadTo(items, w, tag) == IF SumW(items) >= w THEN items ELSE items \o Spaces(w - SumW(items), tag)
\* append_columns_with_borders(cols, collapse = TRUE)
AppendColumns(parent, subs, cf) ==
  LET p1 == Flush(parent)
      n == Len(subs)
      tag == p1.ann
      fl == Strict([k \in 1..n |-> Flush(subs[k])])
      anyerr == \E k \in 1..n : fl[k].err
      W == Strict([k \in 1..n |-> subs[k].width])
      tot == SumSeq(W) + n - 1
      Pos == Strict([k \in 1..n |-> SumSeq(SubSeq(W, 1, k - 1)) + (k - 1)])      \* 0-based start of column k
      ls0 == Strict([k \in 1..n |-> Strict([i \in 1..Len(fl[k].lines) |->
                 IF fl[k].lines[i].b THEN [fl[k].lines[i] EXCEPT !.c = StretchTo(@, W[k])]
                 ELSE TL(PadTo(fl[k].lines[i].c, W[k], tag))])])
      prevIsBorder == p1.lines # <<>> /\ Last(p1.lines).b
      prev0 == IF prevIsBorder THEN Last(p1.lines).c ELSE <<>>
      prev1 == IF prevIsBorder THEN FoldLeft(LAMBDA s, k : JoinBelow(s, Pos[k] + W[k]), prev0, [k \in 1..(n - 1) |-> k]) ELSE prev0
      next1 == IF prevIsBorder THEN FoldLeft(LAMBDA s, k : JoinAbove(s, Pos[k] + W[k]), Rep(GS, tot), [k \in 1..(n - 1) |-> k]) ELSE Rep(GS, tot)
      startsB == Strict([k \in 1..n |-> ls0[k] # <<>> /\ ls0[k][1].b])
      \* the code expects a border line above when a cell starts with one ("No previous line" / unreachable!)
      bad == (\E k \in 1..n : startsB[k]) /\ ~prevIsBorder
      prev2 == FoldLeft(LAMBDA s, k : IF startsB[k] THEN MergeFrom(s, ls0[k][1].c, Pos[k], TRUE) ELSE s, prev1, [k \in 1..n |-> k])
      ls1 == Strict([k \in 1..n |-> IF startsB[k] THEN Tail(ls0[k]) ELSE ls0[k]])
      endsB == Strict([k \in 1..n |-> ls1[k] # <<>> /\ Last(ls1[k]).b])
      next2 == FoldLeft(LAMBDA s, k : IF endsB[k] THEN MergeFrom(s, Last(ls1[k]).c, Pos[k], FALSE) ELSE s, next1, [k \in 1..n |-> k])
      padc == Strict([k \in 1..n |-> IF endsB[k] THEN WithTag(VertAbove(Last(ls1[k]).c), tag) ELSE Spaces(W[k], tag)])
      ls2 == Strict([k \in 1..n |-> IF endsB[k] THEN Front(ls1[k]) ELSE ls1[k]])
      H == FoldLeft(LAMBDA a, k : Max2(a, Len(ls2[k])), 0, [k \in 1..n |-> k])
      sep == IF cf.borders THEN <<BAR, 1, tag>> ELSE <<32, 1, tag>>
      row(i) == FoldLeft(LAMBDA acc, k :
                   acc \o (IF i <= Len(ls2[k])
                           THEN (IF ls2[k][i].b THEN WithTag([j \in 1..Len(ls2[k][i].c) |-> C2(ls2[k][i].c[j])], tag) ELSE ls2[k][i].c)
                           ELSE padc[k])
                       \o (IF k < n THEN <<sep>> ELSE <<>>),
                   <<>>, [k \in 1..n |-> k])
      body == Strict([i \in 1..H |-> TL(row(i))])
      cellFrags == Concat([k \in 1..n |-> fl[k].pend])     \* markers of cells without a line to carry them
      base0 == IF prevIsBorder THEN [p1 EXCEPT !.lines[Len(p1.lines)].c = prev2] ELSE p1
      base == [base0 EXCEPT !.pend = @ \o cellFrags]
      withBody == AddLines(base, body)
      fin == IF cf.borders THEN AddLine(withBody, BL(next2, tag)) ELSE withBody
  IN [fin EXCEPT !.err = @ \/ anyerr, !.panic = bad]

AppendVertRow(parent, subs, cf) ==
  LET p1 == Flush(parent)
      n == Len(subs)
      step(acc, k) == LET a1 == IF k > 1 /\ cf.borders THEN AddLine(Flush(acc), BL(Rep(GV, acc.width), acc.ann)) ELSE acc
                      IN AppendSub(a1, subs[k], <<>>, <<>>, cf.overflow)
      p2 == FoldLeft(step, p1, [k \in 1..n |-> k])
  IN IF cf.borders THEN AddLine(Flush(p2), BL(Rep(GS, p2.width), p2.ann)) ELSE p2

\* render_table_tree: per-column estimates (max per column; remainder of a spanning cell to its first columns)
TableColSizes(t, cf) ==
  FoldLeft(LAMBDA acc, row :
     FoldLeft(LAMBDA a, cell :
                LET e == EstSeq(cell.c, cf)
                    sq == e.size \div cell.colspan   sr == e.size % cell.colspan
                    mq == e.minw \div cell.colspan   mr == e.minw % cell.colspan IN
                [colno |-> a.colno + cell.colspan,
                 v |-> [i \in 1..Len(a.v) |->
                          IF i > a.colno /\ i <= a.colno + cell.colspan
                          THEN LET j == i - a.colno - 1 IN
                               EMax(a.v[i], E3(sq + (IF j < sr THEN 1 ELSE 0), mq + (IF j < mr THEN 1 ELSE 0)))
                          ELSE a.v[i]]],
              [colno |-> 0, v |-> acc], row.c).v,
     [i \in 1..t.ncols |-> EZ], t.c)
RECURSIVE Shrink(_, _, _)
Shrink(cw, es, width) ==
  LET n == Len(cw)  cur == SumSeq(cw) + n - 1 IN
  IF cur <= width THEN cw
  ELSE LET key(i) == << Max2(cw[i] - es[i].minw, 0), cw[i], 1000000 - i >>
           Less(a, b) == \/ a[1] < b[1] \/ (a[1] = b[1] /\ a[2] < b[2]) \/ (a[1] = b[1] /\ a[2] = b[2] /\ a[3] < b[3])
           \* max_by_key returns the LAST maximal element; keys are distinct here (third component)
           best == CHOOSE i \in 1..n : \A j \in 1..n : j = i \/ Less(key(j), key(i))
       IN IF cw[best] = 0 THEN cw   \* `col_widths[i] -= 1` on 0: subtract with overflow (flagged by caller)
          ELSE Shrink([cw EXCEPT ![best] = @ - 1], es, width)
TableLayout(t, width, cf) ==
  LET es == TableColSizes(t, cf)
      ncol == t.ncols
      tot == SumSeq([i \in 1..ncol |-> es[i].size])
      minsize == SumSeq([i \in 1..ncol |-> es[i].minw]) + Max2(ncol - 1, 0)
      vert == cf.raw \/ minsize > width \/ width = 0
      cw0 == [i \in 1..ncol |-> IF vert THEN width
                ELSE IF es[i].size = 0 THEN 0
                ELSE Min2(es[i].size, Max2((es[i].size * width) \div tot, es[i].minw))]
      cw == IF vert \/ ncol = 0 THEN cw0 ELSE Shrink(cw0, es, width)
      nz == Cardinality({i \in 1..ncol : cw[i] > 0})
      tw == IF vert THEN width ELSE SumSeq(cw) + Max2(nz - 1, 0)
  IN [cw |-> cw, vert |-> vert, tw |-> tw, stuck |-> ~vert /\ ncol > 0 /\ SumSeq(cw) + ncol - 1 > width]
\* RenderTableRow::into_cells: [w, cell] for the cells that are not skipped
IntoCells(row, cw, vert) ==
  FoldLeft(LAMBDA a, cell :
             LET w == IF vert THEN (IF a.colno + 1 <= Len(cw) THEN cw[a.colno + 1] ELSE -1)
                      ELSE SumSeq(SubSeq(cw, a.colno + 1, a.colno + cell.colspan)) IN
             [colno |-> a.colno + cell.colspan,
              out |-> IF w > 0 THEN Append(a.out, [w |-> IF vert THEN w ELSE w + cell.colspan - 1,
                                                   cell |-> [cell EXCEPT !.c = a.carry \o @]])
                      ELSE a.out,
              \* fragment markers of a cell that is not drawn move to the next one that is
              carry |-> IF w > 0 THEN <<>> ELSE a.carry \o SelectSeq(cell.c, LAMBDA x : x.kind = "FragStart"),
              oob |-> a.oob \/ w < 0],
           [colno |-> 0, out |-> <<>>, carry |-> <<>>, oob |-> FALSE], row.c)

(* ---------------- the step machine ---------------- *)
Top(st) == Last(st.stk)
SetTop(st, r) == [st EXCEPT !.stk[Len(st.stk)] = r, !.err = IF @ = "" /\ r.err THEN "narrow" ELSE @]
Fail(st, e) == [st EXCEPT !.err = e]
NodeItem(n) == [e |-> "node", n |-> n]
NodeItems(ns) == [i \in 1..Len(ns) |-> NodeItem(ns[i])]
It(e) == [e |-> e]
\* PushedStyleInfo::apply / unwind
ApplySty(r, sty, cf) ==
  LET r1 == IF sty.fg # <<>> /\ Rich(cf) THEN PushAnn(r, sty.fg) ELSE r
      r2 == IF sty.bg # <<>> /\ Rich(cf) THEN PushAnn(r1, sty.bg) ELSE r1
      r3 == IF sty.ws \in {"Pre", "PreWrap"} THEN [r2 EXCEPT !.ws = Append(@, sty.ws)] ELSE r2
  IN IF sty.pre THEN [r3 EXCEPT !.pre = @ + 1] ELSE r3
UnwindSty(r, sty, cf) ==
  LET r1 == IF sty.bg # <<>> /\ Rich(cf) THEN PopAnn(r) ELSE r
      r2 == IF sty.fg # <<>> /\ Rich(cf) THEN PopAnn(r1) ELSE r1
      r3 == IF sty.ws \in {"Pre", "PreWrap"} THEN [r2 EXCEPT !.ws = Front(@)] ELSE r2
  IN IF sty.pre THEN [r3 EXCEPT !.pre = @ - 1] ELSE r3
HasSty(n) == "sty" \in DOMAIN n /\ n.sty # NoSty
SupDigits(n) == /\ Len(n.c) = 1 /\ n.c[1].kind = "Text"
                /\ \A i \in 1..Len(n.c[1].s) : n.c[1].s[i][1] \in 48..57
SupCells(s) == [i \in 1..Len(s) |->
                  LET d == s[i][1] - 48 IN
                  C2(IF d = 1 THEN 185 ELSE IF d = 2 THEN 178 ELSE IF d = 3 THEN 179 ELSE 8304 + d)]

\* one call of do_render_node(n): returns the new state with the children / closures queued
Enter(st0, n, rest, cf) ==
  LET styd == HasSty(n)
      sty == StyOf(n)
      st == IF styd THEN SetTop(st0, ApplySty(Top(st0), sty, cf)) ELSE st0
      top == Top(st)
      unw == IF styd THEN << [e |-> "unwind", sty |-> sty] >> ELSE <<>>
      Go(r, items) == [SetTop(st, r) EXCEPT !.todo = items \o unw \o rest]
      kids == IF "c" \in DOMAIN n THEN NodeItems(n.c) ELSE <<>>
      Sub(pw, minw, exit) ==      \* new_sub_renderer(width_minus(pw, minw)) pushed, children, exit closure
        LET w == WidthMinus(top, pw, minw, cf) IN
        IF w < 0 THEN Fail(st, "narrow")
        ELSE [st EXCEPT !.stk = Append(@, NewSub(w, top.ann)), !.todo = kids \o <<exit>> \o unw \o rest]
      est == Est(n, cf)
  IN
  CASE n.kind = "Text" -> Go(AddInlineText(top, n.s, cf), <<>>)
    [] n.kind = "FragStart" -> Go(RecordFrag(top, n.name, cf), <<>>)
    [] n.kind = "Break" -> Go(NewLineHard(top), <<>>)
    [] n.kind = "Container" -> Go(top, kids)
    [] n.kind = "Link" ->
         LET r == AddInlineText(PushAnn(top, Tag(cf, <<"L", n.href.s>>)), cf.ds.link[1], cf) IN
         \* (the exit half carries the number the link got when it started - TextRenderer.open_links: links nest through
         \* a table cell, and an inner link must not renumber the reference of the outer one)
         [Go(r, kids \o << [e |-> "link_out", num |-> Len(st.links) + 1] >>) EXCEPT !.links = Append(@, n.href.c)]
    [] n.kind = "Em" -> Go(AddInlineText(PushAnn(top, Tag(cf, <<"E">>)), cf.ds.em[1], cf), kids \o << [e |-> "ann_out", s |-> cf.ds.em[2]] >>)
    [] n.kind = "Strong" -> Go(AddInlineText(PushAnn(top, Tag(cf, <<"S">>)), cf.ds.strong[1], cf), kids \o << [e |-> "ann_out", s |-> cf.ds.strong[2]] >>)
    [] n.kind = "Code" -> Go(AddInlineText(PushAnn(top, Tag(cf, <<"C">>)), cf.ds.code[1], cf), kids \o << [e |-> "ann_out", s |-> cf.ds.code[2]] >>)
    [] n.kind = "Strikeout" ->
         LET r == AddInlineText(PushAnn(top, Tag(cf, <<"K">>)), cf.ds.strike[1], cf) IN
         Go(IF cf.strike THEN [r EXCEPT !.filt = @ + 1] ELSE r, kids \o <<It("strike_out")>>)
    [] n.kind = "Img" ->
         Go(PopAnn(AddInlineText(PushAnn(top, Tag(cf, <<"I", n.src>>)), cf.ds.img[1] \o n.alt \o cf.ds.img[2], cf)), <<>>)
    [] n.kind \in {"Block", "ListItem"} -> Go(StartBlock(top), kids \o <<It("end_block")>>)
    [] n.kind = "Div" -> Go(Flush(top), kids \o <<It("flush")>>)
    [] n.kind = "Dl" -> Go(StartBlock(top), kids)
    [] n.kind = "Dt" -> Go(AddInlineText(PushAnn(Flush(top), Tag(cf, <<"E">>)), cf.ds.em[1], cf), kids \o << [e |-> "ann_out", s |-> cf.ds.em[2]] >>)
    [] n.kind = "Header" ->
         LET pre == cf.ds.hdr[n.level] IN
         Sub(est.pre, Max2(est.minw - est.pre, 0), [e |-> "sub_out", first |-> pre, rest |-> pre, block |-> TRUE])
    [] n.kind = "BlockQuote" ->
         LET pre == cf.ds.quote IN
         Sub(SumW(pre), est.minw - SumW(pre), [e |-> "sub_out", first |-> pre, rest |-> pre, block |-> TRUE])
    [] n.kind = "Dd" -> Sub(2, est.minw - 2, [e |-> "sub_out", first |-> Rep(C2(32), 2), rest |-> Rep(C2(32), 2), block |-> FALSE])
    [] n.kind = "Ul" ->
         LET pre == cf.ds.ul  pw == SumW(pre) IN
         Go(top, Concat([i \in 1..Len(n.c) |->
               << [e |-> "sub_in", pw |-> pw, minw |-> est.minw - pw], NodeItem(n.c[i]),
                  [e |-> "sub_out", first |-> pre, rest |-> Rep(C2(32), pw), block |-> FALSE] >>]))
    [] n.kind = "Ol" ->
         LET pw == OlPrefixW(cf, n.start, Len(n.c)) IN
         Go(top, Concat([i \in 1..Len(n.c) |->
               LET p1 == OlPrefix(cf, n.start + i - 1) IN
               << [e |-> "sub_in", pw |-> pw, minw |-> est.minw - est.pre], NodeItem(n.c[i]),
                  [e |-> "sub_out", first |-> p1 \o Rep(C2(32), pw - SumW(p1)), rest |-> Rep(C2(32), pw), block |-> FALSE] >>]))
    [] n.kind = "Sup" ->
         IF SupDigits(n) THEN Go(AddInlineText(top, SupCells(n.c[1].s), cf), <<>>)
         ELSE Go(AddInlineText(PushAnn(top, Tag(cf, <<"D">>)), cf.ds.sup[1], cf), kids \o << [e |-> "ann_out", s |-> cf.ds.sup[2]] >>)
    [] n.kind = "Table" ->
         LET lay == TableLayout(n, top.width, cf)
             r1 == StartBlock(top)
             r2 == IF lay.tw # 0 /\ cf.borders THEN AddLine(r1, BL(Rep(GS, lay.tw), r1.ann)) ELSE r1
             rows == [i \in 1..Len(n.c) |-> [e |-> "row", row |-> n.c[i], cw |-> lay.cw, vert |-> lay.vert]]
         IN IF lay.stuck THEN Fail(st, "panic:shrink") ELSE [SetTop(st, r2) EXCEPT !.todo = rows \o unw \o rest]
    [] OTHER -> Fail(st, "panic:unexpected-node")

RStep(st, cf) ==
  LET it == Head(st.todo)
      rest == Tail(st.todo)
      top == Top(st)
      Done(r) == [SetTop(st, r) EXCEPT !.todo = rest]
  IN
  CASE it.e = "node" -> Enter(st, it.n, rest, cf)
    [] it.e = "unwind" -> Done(UnwindSty(top, it.sty, cf))
    [] it.e = "end_block" -> Done([top EXCEPT !.abe = TRUE])
    [] it.e = "flush" -> Done(Flush(top))
    [] it.e = "ann_out" -> Done(PopAnn(AddInlineText(top, it.s, cf)))
    [] it.e = "strike_out" ->
         Done(PopAnn(AddInlineText(IF cf.strike THEN [top EXCEPT !.filt = @ - 1] ELSE top, cf.ds.strike[2], cf)))
    [] it.e = "link_out" ->
         LET r1 == PopAnn(AddInlineText(top, cf.ds.link[2], cf))
             r2 == IF cf.footnotes THEN AddInlineText(r1, <<C2(91)>> \o NumCells(it.num) \o <<C2(93)>>, cf) ELSE r1
         IN Done(r2)
    [] it.e = "sub_in" ->
         LET w == WidthMinus(top, it.pw, it.minw, cf) IN
         IF w < 0 THEN Fail(st, "narrow")
         ELSE [st EXCEPT !.stk = Append(@, NewSub(w, top.ann)), !.todo = rest]
    [] it.e = "sub_out" ->
         LET sub == top
             s2 == [st EXCEPT !.stk = Front(@)]
             par == IF it.block THEN StartBlock(Top(s2)) ELSE Top(s2)
             p2 == AppendSub(par, sub, it.first, it.rest, cf.overflow)
         IN [SetTop(s2, IF it.block THEN [p2 EXCEPT !.abe = TRUE] ELSE p2) EXCEPT !.todo = rest]
    [] it.e = "row" ->
         \* do_render_node(TableRow): style applied, cells queued with their prefn, cons closure last
         LET styd == HasSty(it.row)
             s1 == IF styd THEN SetTop(st, ApplySty(top, it.row.sty, cf)) ELSE st
             ic == IntoCells(it.row, it.cw, it.vert)
             cellItems == Concat([k \in 1..Len(ic.out) |->
                            << [e |-> "cell_in", w |-> ic.out[k].w], [e |-> "cell", cell |-> ic.out[k].cell] >>])
             unw == IF styd THEN << [e |-> "unwind", sty |-> it.row.sty] >> ELSE <<>>
         IN IF ic.oob THEN Fail(st, "panic:col_sizes-index")
            ELSE [s1 EXCEPT !.acc = Append(@, <<>>),
                            !.todo = cellItems \o << [e |-> "row_out", vert |-> it.vert] >> \o unw \o rest]
    [] it.e = "cell_in" -> [st EXCEPT !.stk = Append(@, NewSub(it.w, top.ann)), !.todo = rest]
    [] it.e = "cell" ->
         LET styd == HasSty(it.cell)
             s1 == IF styd THEN SetTop(st, ApplySty(top, it.cell.sty, cf)) ELSE st
             unw == IF styd THEN << [e |-> "unwind", sty |-> it.cell.sty] >> ELSE <<>>
         IN [s1 EXCEPT !.todo = NodeItems(it.cell.c) \o unw \o <<It("cell_out")>> \o rest]
    [] it.e = "cell_out" ->
         [st EXCEPT !.stk = Front(@), !.acc[Len(st.acc)] = Append(@, top), !.todo = rest]
    [] it.e = "row_out" ->
         LET subs == Last(st.acc)
             s1 == [st EXCEPT !.acc = Front(@)]
             \* (side by side a row without any content is not drawn; stacked, a row none of whose cells got any width)
             r == IF it.vert THEN (IF subs = <<>> THEN top ELSE AppendVertRow(top, subs, cf))
                  ELSE IF \E k \in 1..Len(subs) : ~SubEmpty(subs[k]) THEN AppendColumns(top, subs, cf)
                  ELSE top
         IN IF r.panic THEN Fail(s1, "panic:no-previous-border")
            ELSE [SetTop(s1, r) EXCEPT !.todo = rest]
    [] OTHER -> Fail(st, "panic:unknown-item")

(* ---------------- finalise ---------------- *)
\* fmt_links: hard wrap of one footnote line by characters
FmtLink(r, cells, tag, cf) ==
  LET cs == [i \in 1..Len(cells) |-> IF cells[i][1] = 10 THEN C2(32) ELSE cells[i]]
      wrap == cf.wraplinks /\ SumW(cs) > r.width
      res == FoldLeft(LAMBDA a, c :
               IF wrap /\ a.pos + CWp(c) > r.width
               THEN [lines |-> Append(a.lines, a.cur), cur |-> <<c>>, pos |-> CWp(c)]
               ELSE [a EXCEPT !.cur = Append(@, c), !.pos = @ + CWp(c)],
               [lines |-> <<>>, cur |-> <<>>, pos |-> 0], cs)
  IN AddLines(r, [i \in 1..Len(res.lines) |-> TL(WithTag(res.lines[i], tag))] \o << TL(WithTag(res.cur, tag)) >>)
Footnote(k, href) == <<C2(91)>> \o NumCells(k) \o <<C2(93), C2(58), C2(32)>> \o href
Init0(tree, width, cf) ==
  [stk |-> << NewSub(width, <<>>) >>, links |-> <<>>, todo |-> << NodeItem(tree) >>, acc |-> <<>>, err |-> ""]
Finalise(st, cf) ==
  IF st.err # "" THEN [k |-> IF st.err = "narrow" THEN "narrow" ELSE "panic", lines |-> <<>>, why |-> st.err]
  ELSE IF Len(st.stk) # 1 THEN [k |-> "panic", lines |-> <<>>, why |-> "panic:stack-depth"]
  ELSE LET r0 == Top(st)
           r1 == IF cf.footnotes /\ st.links # <<>>
                 THEN FoldLeft(LAMBDA r, k : FmtLink(r, Footnote(k, st.links[k]), << Tag(cf, <<"D">>) >>, cf),
                               StartBlock(r0), [k \in 1..Len(st.links) |-> k])
                 ELSE r0
           r == Flush(r1)
       IN IF r.err THEN [k |-> "narrow", lines |-> <<>>, why |-> "narrow"]
          ELSE [k |-> "ok", why |-> "",
                lines |-> [i \in 1..Len(r.lines) |-> IF r.lines[i].b THEN BorderItems(r.lines[i]) ELSE r.lines[i].c]]

\* number of work items is bounded by 4 * (number of render nodes) + 8
RECURSIVE NodeCount(_)
NodeCount(n) == 1 + (IF "c" \in DOMAIN n THEN FoldLeft(LAMBDA a, c : a + NodeCount(c), 0, n.c) ELSE 0)
                  + (IF n.kind = "TableRow" THEN 2 ELSE 0)
Run(st0, cf, bound) ==
  FoldLeft(LAMBDA s, k : IF s.todo = <<>> \/ s.err # "" THEN s ELSE RStep(s, cf), st0, [k \in 1..bound |-> k])
\* the whole pipeline on an abstract document: [k, lines]
RenderDoc(dom, cfg, width) ==
  LET cf == Cf(cfg)
      tree == RenderTreeOf(dom, cf)
  IN IF width = 0 THEN [k |-> "narrow", lines |-> <<>>, why |-> "narrow"]
     ELSE Finalise(Run(Init0(tree, width, cf), cf, 5 * NodeCount(tree) + 8), cf)
=============================================================================
