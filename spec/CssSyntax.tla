----------------------------- MODULE CssSyntax -----------------------------
(* The style-sheet parser of src/css/parser.rs at the level of tokens: which rule sets of a sheet survive,
   and how the parser recovers from what it cannot parse.

   A sheet is a sequence of tokens  [k |-> kind, s |-> spelling, v |-> bare name, col |-> <<r, g, b>> or <<>>]  written
   with one blank between neighbours (so the simple selectors of a run are joined by descendant
   combinators, or by a child combinator where a `>` stands between them).  Kinds:
     ident class hash star nth gt plus tilde comma lbrace rbrace semi colon at lround rround lsq rsq func str num bang cdo cdc
   (plus, tilde: the sibling combinators `+` and `~`, which the library does not implement; they are no selector
   kind, so parse_selector stops in front of them, the rule set fails at the missing `{` and is skipped as an
   invalid rule set - and the reference drops a rule set whose prelude is no selector list it knows)

   Two descriptions:
     Sheet(T)     the transcription of parse_stylesheet: many0(parse_statement) with
                  parse_statement = alt(<!-- / -->, parse_ruleset, parse_at_rule, skip_invalid_ruleset),
                  parse_ruleset's selector list / declaration list / parse_value (bracket stack), and
                  skip_to_end_of_statement (bracket stack, `;` or the end of the first block);
     RefRules(T)  the declarative reading of CSS Syntax for sheets that are *well formed*: a sequence of
                  complete statements - at-rules `@x .. ;` / `@x .. { .. }` and qualified rules
                  `prelude { .. }` with properly nested brackets - of which exactly the qualified rules
                  with a valid selector list and a valid declaration list contribute.
   mc/MC_CssSyntax checks  WellFormed(T) => Abs(Sheet(T)) = Abs(RefRules(T))  for every token sequence
   of a bounded length (C17: unknown at-rules and unparsable rule sets in between do not change what a
   sheet means), and emits every sequence for replay on the real parser.

   Deliberate limits of the reference (the property is silent there, the transcription still says what
   the code does and the replay compares it):  a `;` at the top level of a qualified rule's prelude
   (CSS: part of the prelude; the code: ends the statement), `<!--` / `-->` anywhere but between
   statements (the code's recovery treats `<!--` as a bracket closed by `-->`), stray closing brackets
   and statements cut off by the end of the sheet. *)
EXTENDS Naturals, Sequences, FiniteSets

Tok(k, s) == [k |-> k, s |-> s, v |-> s, col |-> <<>>]
Class(name) == [k |-> "class", s |-> "." \o name, v |-> name, col |-> <<>>]
Hash(name, c) == [k |-> "hash", s |-> "#" \o name, v |-> name, col |-> c]      \* v: the id it names as a selector
Nth(spelling, a, b) == [k |-> "nth", s |-> spelling, v |-> spelling, col |-> <<a, b>>]   \* :nth-child(an+b) as one token; col: <<a, b>>
SelKinds == {"ident", "class", "hash", "star", "nth"}
Openers == {"lround", "func", "lsq", "lbrace"}
Closers == {"rround", "rsq", "rbrace"}
CloserOf(k) == CASE k \in {"lround", "func"} -> "rround" [] k = "lsq" -> "rsq" [] k = "lbrace" -> "rbrace"
MaxOf(S) == CHOOSE m \in S : \A q \in S : q <= m
LastOf(s) == s[Len(s)]
FrontOf(s) == SubSeq(s, 1, Len(s) - 1)
Sub(T, a, b) == IF b < a THEN <<>> ELSE SubSeq(T, a, b)
KindAt(T, i) == IF i >= 1 /\ i <= Len(T) THEN T[i].k ELSE "eof"

(* ------------------------- the code: parse_stylesheet ------------------------- *)
\* parse_selector: a non-empty run of simple selectors and `>` (white space between simple selectors = descendant
\* combinator); the run is a selector only if every `>` has a simple selector on both sides (GoodRun) - otherwise
\* parse_selector fails as a whole
RECURSIVE SelRunEnd(_, _)
SelRunEnd(T, i) == IF KindAt(T, i) \in SelKinds \cup {"gt"} THEN SelRunEnd(T, i + 1) ELSE i
GoodRun(R) == /\ R # <<>> /\ R[1].k # "gt" /\ R[Len(R)].k # "gt"
              /\ \A m \in 1..(Len(R) - 1) : ~(R[m].k = "gt" /\ R[m + 1].k = "gt")
\* separated_list0(",", parse_selector): a comma that no selector follows is not consumed
RECURSIVE MoreSels(_, _, _)
MoreSels(T, e, acc) ==
  LET e2 == SelRunEnd(T, e + 1) IN
  IF KindAt(T, e) = "comma" /\ e2 > e + 1 /\ GoodRun(Sub(T, e + 1, e2 - 1)) THEN MoreSels(T, e2, Append(acc, Sub(T, e + 1, e2 - 1)))
  ELSE [sels |-> acc, next |-> e]
SelList(T, i) == LET e == SelRunEnd(T, i) IN
                 IF e = i \/ ~GoodRun(Sub(T, i, e - 1)) THEN [sels |-> <<>>, next |-> i] ELSE MoreSels(T, e, << Sub(T, i, e - 1) >>)

\* parse_value: tokens up to the `;` / `}` that ends the declaration; brackets nest; a `}` closes the innermost
\* `{` (brackets left open inside it end with it) or, when there is none, ends the value
RECURSIVE ValueEnd(_, _, _)
ValueEnd(T, j, st) ==
  LET k == KindAt(T, j) IN
  IF k = "eof" THEN j
  ELSE IF k \in Openers THEN ValueEnd(T, j + 1, Append(st, CloserOf(k)))
  ELSE IF k \in {"rround", "rsq"} THEN ValueEnd(T, j + 1, IF st # <<>> /\ LastOf(st) = k THEN FrontOf(st) ELSE st)
  ELSE IF k = "rbrace" THEN LET ps == {p \in 1..Len(st) : st[p] = "rbrace"} IN
                            IF ps = {} THEN j ELSE ValueEnd(T, j + 1, Sub(st, 1, MaxOf(ps) - 1))
  ELSE IF k = "semi" /\ st = <<>> THEN j
  ELSE ValueEnd(T, j + 1, st)

\* parse_rules: separated_list0(";", alt(parse_declaration, nothing))
DeclAt(T, k) == KindAt(T, k) = "ident" /\ KindAt(T, k + 1) = "colon"
RECURSIVE Decls(_, _, _)
Decls(T, k, acc) ==
  LET has == DeclAt(T, k)
      e == IF has THEN ValueEnd(T, k + 2, <<>>) ELSE k
      acc2 == IF has THEN Append(acc, [prop |-> T[k].s, val |-> Sub(T, k + 2, e - 1)]) ELSE acc IN
  IF KindAt(T, e) = "semi" THEN Decls(T, e + 1, acc2) ELSE [decls |-> acc2, next |-> e]

NoRule == [ok |-> FALSE, next |-> 0, rule |-> [sels |-> <<>>, decls |-> <<>>]]
Ruleset(T, i) ==
  LET sl == SelList(T, i) IN
  IF KindAt(T, sl.next) # "lbrace" THEN NoRule
  ELSE LET d == Decls(T, sl.next + 1, <<>>) IN
       IF KindAt(T, d.next) # "rbrace" THEN NoRule
       ELSE [ok |-> TRUE, next |-> d.next + 1, rule |-> [sels |-> sl.sels, decls |-> d.decls]]

\* skip_to_end_of_statement
RECURSIVE Skip(_, _, _)
Skip(T, j, st) ==
  LET k == KindAt(T, j) IN
  IF k = "eof" THEN [ok |-> TRUE, next |-> j]
  ELSE IF k \in Openers THEN Skip(T, j + 1, Append(st, CloserOf(k)))
  ELSE IF k = "cdo" THEN Skip(T, j + 1, Append(st, "cdc"))
  ELSE IF k = "semi" THEN (IF st = <<>> THEN [ok |-> TRUE, next |-> j + 1] ELSE Skip(T, j + 1, st))
  ELSE IF k = "rbrace" /\ st = <<>> THEN [ok |-> TRUE, next |-> j]           \* not consumed
  ELSE IF k \in Closers \cup {"cdc"} THEN
         IF st # <<>> /\ LastOf(st) = k
         THEN (IF k = "rbrace" /\ Len(st) = 1 THEN [ok |-> TRUE, next |-> j + 1] ELSE Skip(T, j + 1, FrontOf(st)))
         ELSE [ok |-> FALSE, next |-> j]                                     \* unbalanced brackets
  ELSE Skip(T, j + 1, st)

\* parse_statement
Stmt(T, i) ==
  IF KindAt(T, i) \in {"cdo", "cdc"} THEN [ok |-> TRUE, next |-> i + 1, rules |-> <<>>]
  ELSE LET r == Ruleset(T, i) IN
       IF r.ok THEN [ok |-> TRUE, next |-> r.next, rules |-> << r.rule >>]
       ELSE LET a == IF KindAt(T, i) = "at" THEN Skip(T, i + 1, <<>>) ELSE [ok |-> FALSE, next |-> i] IN
            IF a.ok THEN [ok |-> TRUE, next |-> a.next, rules |-> <<>>]
            ELSE LET s == Skip(T, i, <<>>) IN
                 IF s.ok /\ s.next > i THEN [ok |-> TRUE, next |-> s.next, rules |-> <<>>]
                 ELSE [ok |-> FALSE, next |-> i, rules |-> <<>>]
\* many0(parse_statement): stops, without an error, where no statement can be read
RECURSIVE SheetFrom(_, _, _)
SheetFrom(T, i, acc) ==
  IF i > Len(T) THEN [rules |-> acc, stop |-> i]
  ELSE LET s == Stmt(T, i) IN
       IF s.ok THEN SheetFrom(T, s.next, acc \o s.rules) ELSE [rules |-> acc, stop |-> i]
Sheet(T) == SheetFrom(T, 1, <<>>).rules
StopsAt(T) == SheetFrom(T, 1, <<>>).stop          \* Len(T) + 1 when the whole sheet was read

(* ------------------------- the reference: CSS Syntax on well-formed sheets ------------------------- *)
\* index of the bracket that closes the stack st (opened before j), 0 if the nesting is wrong or the sheet ends
RECURSIVE MatchEnd(_, _, _)
MatchEnd(T, j, st) ==
  LET k == KindAt(T, j) IN
  IF k = "eof" THEN 0
  ELSE IF k \in Openers THEN MatchEnd(T, j + 1, Append(st, CloserOf(k)))
  ELSE IF k \in Closers THEN (IF LastOf(st) # k THEN 0 ELSE IF Len(st) = 1 THEN j ELSE MatchEnd(T, j + 1, FrontOf(st)))
  ELSE IF k \in {"cdo", "cdc"} THEN 0
  ELSE MatchEnd(T, j + 1, st)
\* one statement starting at i: [ok, last, block = index of its `{` or 0]
RECURSIVE StmtScan(_, _, _)
StmtScan(T, j, isAt) ==
  LET k == KindAt(T, j) IN
  IF k \in {"eof", "cdo", "cdc"} \/ k \in Closers THEN [ok |-> FALSE, last |-> 0, block |-> 0]
  ELSE IF k = "semi" THEN (IF isAt THEN [ok |-> TRUE, last |-> j, block |-> 0] ELSE [ok |-> FALSE, last |-> 0, block |-> 0])
  ELSE IF k = "lbrace" THEN LET m == MatchEnd(T, j + 1, << "rbrace" >>) IN
                            IF m = 0 THEN [ok |-> FALSE, last |-> 0, block |-> 0] ELSE [ok |-> TRUE, last |-> m, block |-> j]
  ELSE IF k \in Openers THEN LET m == MatchEnd(T, j + 1, << CloserOf(k) >>) IN
                             IF m = 0 THEN [ok |-> FALSE, last |-> 0, block |-> 0] ELSE StmtScan(T, m + 1, isAt)
  ELSE StmtScan(T, j + 1, isAt)
RefStmt(T, i) == IF KindAt(T, i) = "at" THEN StmtScan(T, i + 1, TRUE) ELSE StmtScan(T, i, FALSE)

\* a selector list: complex selectors separated by commas; a complex selector: compound selectors joined by
\* combinators, so a combinator stands neither first nor last nor next to another one
ValidSelList(P) == /\ P # <<>>
                   /\ \A i \in 1..Len(P) : P[i].k \in SelKinds \cup {"comma", "gt"}
                   /\ P[1].k \notin {"comma", "gt"} /\ P[Len(P)].k \notin {"comma", "gt"}
                   /\ \A i \in 1..(Len(P) - 1) : ~(P[i].k \in {"comma", "gt"} /\ P[i + 1].k \in {"comma", "gt"})
\* the content of a block (properly nested) cut at its top-level `;`
DepthBefore(C, j) == Cardinality({i \in 1..(j - 1) : C[i].k \in Openers}) - Cardinality({i \in 1..(j - 1) : C[i].k \in Closers})
TopSemis(C) == {j \in 1..Len(C) : C[j].k = "semi" /\ DepthBefore(C, j) = 0}
Items(C) == LET cuts == TopSemis(C)
                n == Cardinality(cuts)
                cut(m) == IF m = 0 THEN 0 ELSE IF m = n + 1 THEN Len(C) + 1
                          ELSE CHOOSE j \in cuts : Cardinality({q \in cuts : q < j}) = m - 1 IN
            [m \in 1..(n + 1) |-> Sub(C, cut(m - 1) + 1, cut(m) - 1)]
ValidItem(I) == I = <<>> \/ (Len(I) >= 2 /\ I[1].k = "ident" /\ I[2].k = "colon")
SplitSels(P) == Items([i \in 1..Len(P) |-> IF P[i].k = "comma" THEN Tok("semi", ";") ELSE P[i]])
RefContribution(T, i, st) ==
  IF KindAt(T, i) = "at" \/ st.block = 0 THEN <<>>
  ELSE LET P == Sub(T, i, st.block - 1)
           C == Sub(T, st.block + 1, st.last - 1)
           its == Items(C) IN
       IF ValidSelList(P) /\ \A m \in 1..Len(its) : ValidItem(its[m])
       THEN << [sels |-> SplitSels(P),
                decls |-> LET ds == SelectSeq(its, LAMBDA I : I # <<>>) IN
                          [m \in 1..Len(ds) |-> [prop |-> ds[m][1].s, val |-> Sub(ds[m], 3, Len(ds[m]))]]] >>
       ELSE <<>>
RECURSIVE RefFrom(_, _, _)
RefFrom(T, i, acc) ==
  IF i > Len(T) THEN [ok |-> TRUE, rules |-> acc]
  ELSE IF KindAt(T, i) \in {"cdo", "cdc"} THEN RefFrom(T, i + 1, acc)
  ELSE LET st == RefStmt(T, i) IN
       IF ~st.ok THEN [ok |-> FALSE, rules |-> acc]
       ELSE RefFrom(T, st.last + 1, acc \o RefContribution(T, i, st))
WellFormed(T) == RefFrom(T, 1, <<>>).ok
RefRules(T) == RefFrom(T, 1, <<>>).rules

(* ------------------------- from parsed rule sets to the abstract sheet of Css.tla ------------------------- *)
\* styles_from_properties: of the properties in the alphabet only `color: #rrggbb` means something
\* parse_value: a value ending in `!` `important` is important, and loses the two tokens
Important(val) == Len(val) >= 2 /\ val[Len(val) - 1].k = "bang" /\ val[Len(val)].k = "ident" /\ val[Len(val)].s = "important"
Bare(val) == IF Important(val) THEN Sub(val, 1, Len(val) - 2) ELSE val
ColourDecls(decls) ==
  LET ds == SelectSeq(decls, LAMBDA d : d.prop = "color" /\ Len(Bare(d.val)) = 1 /\ Bare(d.val)[1].k = "hash" /\ Bare(d.val)[1].col # <<>>) IN
  [m \in 1..Len(ds) |-> [prop |-> "color", val |-> Bare(ds[m].val)[1].col, imp |-> Important(ds[m].val)]]
Compound(t, comb) ==
  [comb |-> comb,
   name |-> IF t.k = "ident" THEN t.s ELSE "",
   star |-> t.k = "star",
   cls |-> IF t.k = "class" THEN << t.v >> ELSE <<>>,
   id |-> IF t.k = "hash" THEN t.v ELSE "",
   nth |-> IF t.k = "nth" THEN t.col ELSE <<>>]
AbsSel(run) == LET ix == SelectSeq([m \in 1..Len(run) |-> m], LAMBDA m : run[m].k # "gt") IN
               [q \in 1..Len(ix) |-> Compound(run[ix[q]], IF q = 1 THEN "" ELSE IF run[ix[q] - 1].k = "gt" THEN "child" ELSE "desc")]
\* rule sets without a style, or without a selector, leave no trace (do_add_css)
Abs(rules) ==
  LET live == SelectSeq(rules, LAMBDA r : ColourDecls(r.decls) # <<>> /\ r.sels # <<>>) IN
  [m \in 1..Len(live) |-> [sels |-> [q \in 1..Len(live[m].sels) |-> AbsSel(live[m].sels[q])], decls |-> ColourDecls(live[m].decls)]]
=============================================================================
