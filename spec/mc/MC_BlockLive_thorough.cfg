SPECIFICATION LiveSpec
CONSTANTS
  MaxTop = 2
  Widths = {1, 2, 3, 5, 8, 20}
  Scope = "t"
  CfgNames = {"plain", "rich", "overflow"}
  Emit = FALSE
PROPERTY Terminates
CHECK_DEADLOCK FALSE
