---------------------------- MODULE MC_CssSyntax ----------------------------
(* Bounded exhaustive exploration of the style-sheet parser model (CssSyntax.tla): every sequence of at most
   MaxLen atoms over Atoms is a sheet.  An atom is one token, or a whole good rule set (G1, G2: six
   tokens; G3: G1's selector with an `!important` colour, so that parsing feeds the cascade; B1: a block with a
   colour and no selector, so that `p > B1`, `> p B1`, `p , B1` are rule sets whose selector list decides), so that sheets of a few atoms hold good rules with junk statements before, between and after.

     Inv_Syntax   on every well-formed sheet the transcription of parse_stylesheet keeps exactly the rule
                  sets that the reference keeps (C17 on the model: junk statements do not change a sheet)
     Inv_Stop     on every well-formed sheet the transcription reads the sheet to its end
     Inv_Emit     every sheet is emitted with the abstract sheet the model predicts; the harness writes it
                  into <style>, renders a fixed document, and the result is judged by P_C17 (variant:
                  same rendering as under the canonical text of the reference rules; total otherwise) and
                  compared with the prediction through Props!ColourOK (drift) *)
EXTENDS CssSyntax, TLC, Json
CONSTANTS MaxLen, Atoms, Emit, EmitOneIn

AtomToks(a) ==
  CASE a = "G1" -> << Tok("ident", "b"), Tok("lbrace", "{"), Tok("ident", "color"), Tok("colon", ":"), Hash("010101", <<1, 1, 1>>), Tok("rbrace", "}") >>
    [] a = "G2" -> << Class("x"), Tok("lbrace", "{"), Tok("ident", "color"), Tok("colon", ":"), Hash("020202", <<2, 2, 2>>), Tok("rbrace", "}") >>
    [] a = "G3" -> << Tok("ident", "b"), Tok("lbrace", "{"), Tok("ident", "color"), Tok("colon", ":"), Hash("030303", <<3, 3, 3>>), Tok("bang", "!"), Tok("ident", "important"), Tok("rbrace", "}") >>
    [] a = "!i" -> << Tok("bang", "!"), Tok("ident", "important") >>
    [] a = "p" -> << Tok("ident", "p") >>
    [] a = "p:" -> << Tok("ident", "p"), Tok("colon", ":") >>
    [] a = "*" -> << Tok("star", "*") >>
    [] a = "#i" -> << Hash("i", <<>>) >>
    [] a = ">" -> << Tok("gt", ">") >>
    [] a = ":2" -> << Nth(":nth-child(2)", 0, 2) >>       \* a compound of its own (the blanks around it are descendant combinators)
    [] a = ":odd" -> << Nth(":nth-child(2n+1)", 2, 1) >>
    [] a = "+" -> << Tok("plus", "+") >>          \* combinators the library does not implement: no selector kind, so
    [] a = "~" -> << Tok("tilde", "~") >>         \* the rule set whose prelude holds one is dropped (code and reference)
    [] a = "B1" -> << Tok("lbrace", "{"), Tok("ident", "color"), Tok("colon", ":"), Hash("040404", <<4, 4, 4>>), Tok("rbrace", "}") >>
    [] a = "," -> << Tok("comma", ",") >>
    [] a = "{" -> << Tok("lbrace", "{") >>
    [] a = "}" -> << Tok("rbrace", "}") >>
    [] a = ";" -> << Tok("semi", ";") >>
    [] a = ":" -> << Tok("colon", ":") >>
    [] a = "@m" -> << Tok("at", "@m") >>
    [] a = "(" -> << Tok("lround", "(") >>
    [] a = ")" -> << Tok("rround", ")") >>
    [] a = "[" -> << Tok("lsq", "[") >>
    [] a = "]" -> << Tok("rsq", "]") >>
    [] a = "f(" -> << Tok("func", "f(") >>
    [] a = "s" -> << Tok("str", "\"s;}\"") >>
    [] a = "1" -> << Tok("num", "1") >>
    [] a = "<!--" -> << Tok("cdo", "<!--") >>
    [] a = "-->" -> << Tok("cdc", "-->") >>

VARIABLE atoms
Init == atoms = <<>>
Next == \E a \in Atoms : Len(atoms) < MaxLen /\ atoms' = Append(atoms, a)
Spec == Init /\ [][Next]_atoms

RECURSIVE Flat(_)
Flat(as) == IF as = <<>> THEN <<>> ELSE AtomToks(Head(as)) \o Flat(Tail(as))
T == Flat(atoms)

Inv_Syntax == WellFormed(T) => Abs(Sheet(T)) = Abs(RefRules(T))
Inv_Stop == WellFormed(T) => StopsAt(T) = Len(T) + 1

Beh == [id |-> "mccsssyn", csssyn |-> [i \in 1..Len(T) |-> T[i].s], wf |-> WellFormed(T),
        pred |-> Abs(Sheet(T)), ref |-> IF WellFormed(T) THEN Abs(RefRules(T)) ELSE <<>>]
\* (every well-formed sheet; one in EmitOneIn of the others)
Inv_Emit == (Emit /\ atoms # <<>> /\ (WellFormed(T) \/ EmitOneIn = 1 \/ RandomElement(1..EmitOneIn) = 1)) => PrintT(<<"BEH", ToJson(Beh)>>)
=============================================================================
