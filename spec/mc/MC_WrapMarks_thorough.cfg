SPECIFICATION Spec
CONSTANTS
  MaxLen = 7
  MaxW = 5
  Modes = {"Normal", "Pre"}
  AlphaName = "marks"
  Emit = FALSE
INVARIANTS Inv_Width Inv_Overflow Inv_Conserve Inv_Frags Inv_Greedy Inv_WsIdem Inv_Pad Inv_Emit
CHECK_DEADLOCK FALSE
