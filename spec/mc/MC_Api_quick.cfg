SPECIFICATION Spec
CONSTANTS
  MaxOps = 4
  Widths = {0, 3, 9}
  Routes = {"string", "lines"}
  CfgName = "plain"
  Emit = TRUE
  EmitOneIn = 1
INVARIANTS Inv_P_C10 Inv_LiveTreesClean Inv_Emit
CHECK_DEADLOCK FALSE
