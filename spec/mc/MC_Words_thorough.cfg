SPECIFICATION Spec
CONSTANTS
  MaxWords = 4
  Widths = {1, 2, 3, 4, 5, 6, 7, 8, 9, 10, 12, 14, 16, 20, 25, 40}
  Emit = TRUE
INVARIANTS Inv_Greedy Inv_Width Inv_Emit
CHECK_DEADLOCK FALSE
