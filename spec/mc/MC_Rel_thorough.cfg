SPECIFICATION Spec
CONSTANTS
  MaxTop = 2
  Widths = {1, 2, 3, 4, 5, 6, 8, 12, 20}
  Scope = "t"
  CfgNames = {"plain", "rich", "trivial", "maxwrap3", "nofoot"}
  Emit = FALSE
INVARIANTS Inv_Rel_C11 Inv_Rel_C13 Inv_Rel_C15 Inv_Rel_C07
CHECK_DEADLOCK FALSE
