SPECIFICATION Spec
CONSTANTS
  Mode = "hide"
  MaxNodes = 3
  MaxSteps = 1
  MaxDecls = 0
  Small = FALSE
  EmitOneIn = 20
  Emit = TRUE
INVARIANTS Inv_Selector Inv_Cascade Inv_Hide Inv_Emit
CHECK_DEADLOCK FALSE
