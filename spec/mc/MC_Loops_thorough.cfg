SPECIFICATION Spec
CONSTANTS
  MaxW = 20
  Guarded = TRUE
  MaxN = 12
INVARIANTS Inv_Bound Inv_Shrink Inv_Tab
PROPERTY Terminates
CHECK_DEADLOCK FALSE
