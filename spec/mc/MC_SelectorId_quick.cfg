SPECIFICATION Spec
CONSTANTS
  Mode = "selector"
  MaxNodes = 2
  MaxSteps = 1
  MaxDecls = 0
  Small = FALSE
  EmitOneIn = 10
  Emit = TRUE
INVARIANTS Inv_Selector Inv_Cascade Inv_Hide Inv_Emit
CHECK_DEADLOCK FALSE
