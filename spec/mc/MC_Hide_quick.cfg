SPECIFICATION Spec
CONSTANTS
  Mode = "hide"
  MaxNodes = 2
  MaxSteps = 1
  MaxDecls = 0
  Small = FALSE
  EmitOneIn = 3
  Emit = TRUE
INVARIANTS Inv_Selector Inv_Cascade Inv_Hide Inv_Emit
CHECK_DEADLOCK FALSE
