SPECIFICATION Spec
CONSTANTS
  Mode = "selector"
  MaxNodes = 1
  MaxSteps = 3
  MaxDecls = 0
  Small = TRUE
  EmitOneIn = 100
  Emit = TRUE
INVARIANTS Inv_Selector Inv_Cascade Inv_Hide Inv_Emit
CHECK_DEADLOCK FALSE
