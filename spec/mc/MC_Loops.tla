------------------------------ MODULE MC_Loops ------------------------------
(* The loops of the renderer that must terminate, unrolled to one iteration per TLC action so that
   termination is *checked* (liveness under weak fairness, no state constraint) instead of assumed:
     tab    the tab-stop loop of WrappedBlock::add_text          (variant: steps until the next stop)
     ws     "write any remaining whitespace" in flush_word       (variant: wslen)
     hard   flush_word_hard_wrap's "while w - wpos > lineleft"   (variant: cells still to place)
     shrink the column shrink loop of render_table_tree          (variant: total width)
   Each loop starts from every state of its bounded domain, including the degenerate width 0 that
   made the first two spin forever before they were guarded (see known_findings.json, fixed). *)
EXTENDS Naturals, Integers, Sequences, FiniteSets, TLC
CONSTANTS MaxW, MaxN, Guarded      \* Guarded = FALSE removes the zero-width guards (negative control)

VARIABLES loop, width, pos, one, wslen, cells, linew, cw, minw, done, err, iters
vars == <<loop, width, pos, one, wslen, cells, linew, cw, minw, done, err, iters>>
Min2(a, b) == IF a < b THEN a ELSE b
Max2(a, b) == IF a > b THEN a ELSE b
Sum(s) == IF s = <<>> THEN 0 ELSE LET f[i \in 0..Len(s)] == IF i = 0 THEN 0 ELSE f[i - 1] + s[i] IN f[Len(s)]

Z2 == [i \in 1..2 |-> 0]
Init ==
  /\ done = FALSE /\ err = FALSE /\ iters = 0 /\ one = FALSE
  /\ width \in 0..MaxW
  \* each loop only uses its own variables; the others are pinned to one value
  /\ \/ loop = "tab" /\ pos \in 0..MaxW /\ wslen = 0 /\ cells = <<>> /\ linew = 0 /\ cw = Z2 /\ minw = Z2
     \/ loop = "ws" /\ wslen \in 0..MaxN /\ pos = 0 /\ cells = <<>> /\ linew = 0 /\ cw = Z2 /\ minw = Z2
     \/ loop = "hard" /\ cells \in UNION {[1..n -> {0, 1, 2}] : n \in 0..3} /\ linew \in 0..Min2(2, width)
                      /\ pos = 0 /\ wslen = 0 /\ cw = Z2 /\ minw = Z2
     \* render_table_tree only shrinks when the minimum widths fit: min_size <= width
     \/ loop = "shrink" /\ cw \in [1..2 -> 0..4] /\ minw \in [1..2 -> 0..2] /\ Sum(minw) + 1 <= width
                        /\ (\A i \in 1..2 : cw[i] >= minw[i]) /\ pos = 0 /\ wslen = 0 /\ cells = <<>> /\ linew = 0

\* '\t' arm (with the zero-width guard): one iteration of `while pos % 8 != 0 || !at_least_one_space`
TabStep ==
  /\ loop = "tab" /\ ~done
  /\ IF width = 0 /\ Guarded THEN done' = TRUE /\ err' = TRUE /\ UNCHANGED <<pos, one>>   \* TooNarrow / one overflowing space
     ELSE IF pos % 8 = 0 /\ one THEN done' = TRUE /\ UNCHANGED <<pos, one, err>>
     ELSE IF pos >= width THEN pos' = 0 /\ UNCHANGED <<one, done, err>>                \* flush_line
     ELSE pos' = pos + 1 /\ one' = TRUE /\ UNCHANGED <<done, err>>
  /\ iters' = iters + 1 /\ UNCHANGED <<loop, width, wslen, cells, linew, cw, minw>>
\* `while self.wslen > 0 { to_copy = wslen.min(width); ...; wslen -= to_copy }` (with the zero-width guard)
WsStep ==
  /\ loop = "ws" /\ ~done
  /\ IF width = 0 /\ Guarded THEN wslen' = 0 /\ done' = TRUE
     ELSE IF wslen = 0 THEN done' = TRUE /\ UNCHANGED wslen
     ELSE wslen' = wslen - Min2(wslen, width) /\ UNCHANGED done
  /\ iters' = iters + 1 /\ UNCHANGED <<loop, width, pos, one, cells, linew, cw, minw, err>>
\* hard wrap, one decision per iteration: place the next cell, break the line, or give up (TooNarrow)
HardStep ==
  /\ loop = "hard" /\ ~done
  /\ IF cells = <<>> THEN done' = TRUE /\ UNCHANGED <<cells, linew, err>>
     ELSE LET c == Head(cells) IN
          IF c <= width - linew THEN cells' = Tail(cells) /\ linew' = linew + c /\ UNCHANGED <<done, err>>
          ELSE IF linew = 0 THEN done' = TRUE /\ err' = TRUE /\ UNCHANGED <<cells, linew>>      \* no progress possible
          ELSE linew' = 0 /\ UNCHANGED <<cells, done, err>>                                       \* force_flush_line
  /\ iters' = iters + 1 /\ UNCHANGED <<loop, width, pos, one, wslen, cw, minw>>
\* shrink loop: decrement the column with the largest slack until the row fits
ShrinkStep ==
  /\ loop = "shrink" /\ ~done
  /\ IF Sum(cw) + 1 <= width THEN done' = TRUE /\ UNCHANGED <<cw, err>>
     ELSE LET key(i) == <<Max2(cw[i] - minw[i], 0), cw[i], 10 - i>>
              Less(a, b) == \/ a[1] < b[1] \/ (a[1] = b[1] /\ a[2] < b[2]) \/ (a[1] = b[1] /\ a[2] = b[2] /\ a[3] < b[3])
              best == CHOOSE i \in 1..2 : \A j \in 1..2 : j = i \/ Less(key(j), key(i)) IN
          IF cw[best] = 0 THEN done' = TRUE /\ err' = TRUE /\ UNCHANGED cw                   \* would underflow: panic
          ELSE cw' = [cw EXCEPT ![best] = @ - 1] /\ UNCHANGED <<done, err>>
  /\ iters' = iters + 1 /\ UNCHANGED <<loop, width, pos, one, wslen, cells, linew, minw>>
Next == TabStep \/ WsStep \/ HardStep \/ ShrinkStep
Spec == Init /\ [][Next]_vars /\ WF_vars(Next)

Terminates == <>done
\* a bound on the iterations (the variant argument made explicit)
Inv_Bound == iters <= 3 * MaxW + 3 * MaxN + 40
\* the shrink loop never needs to go below zero and never shrinks a column below its minimum
Inv_Shrink == loop = "shrink" => ~err /\ \A i \in 1..2 : cw[i] >= minw[i]
\* a tab never leaves the line wider than the block
Inv_Tab == (loop = "tab" /\ width > 0) => pos <= Max2(width, MaxW)
=============================================================================
