SPECIFICATION Spec
CONSTANTS
  MaxLen = 5
  Atoms = {"G1", "G3", "p", "p:", "{", "}", ";", "f(", ")"}
  Emit = TRUE
  EmitOneIn = 1
INVARIANTS Inv_Syntax Inv_Stop Inv_Emit
CHECK_DEADLOCK FALSE
