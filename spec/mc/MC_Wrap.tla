------------------------------- MODULE MC_Wrap -------------------------------
(* Bounded exhaustive exploration of the line filler: every character sequence up to MaxLen over
   Alphabet, at every width 1..MaxW, in each white-space mode, with/without padding and overflow.
   One TLC state per character fed (the loop body of WrappedBlock::add_text), invariants checked in
   every intermediate state.  Terminal states emit the behaviour for replay on the real library. *)
EXTENDS Wrap, Json, TLCExt
CONSTANTS MaxLen, MaxW, Modes, AlphaName, Emit

a_ == <<97, 1>>  b_ == <<98, 1>>  wide_ == <<19968, 2>>  zero_ == <<769, 0>>
sp_ == <<32, 1>>  nl_ == <<10, -1>>  tab_ == <<9, -1>>
FRAG == <<-1, 0, << <<"F", "f">> >> >>          \* a fragment marker recorded before the next character
TSW == <<-2, 0, <<>>>>                          \* tag switch: the following characters carry another tag
Alphabet == CASE AlphaName = "normal" -> {a_, wide_, zero_, sp_}
              [] AlphaName = "pre" -> {a_, wide_, sp_, nl_, tab_}
              [] AlphaName = "marks" -> {a_, wide_, sp_, FRAG, TSW}
              [] OTHER -> {a_, b_, sp_}

VARIABLES fed, st, w, mode, pad, ovf, done
vars == <<fed, st, w, mode, pad, ovf, done>>
T1 == << <<"E">> >>       \* tag vectors used before / after a tag switch
T2 == << <<"S">> >>
MainTag(t) == IF mode = "Pre" THEN Append(t, <<"P", 0>>) ELSE t
ContTag(t) == IF mode = "Pre" THEN Append(t, <<"P", 1>>) ELSE t

Init == /\ fed = <<>> /\ done = FALSE
        /\ w \in 1..MaxW /\ mode \in Modes /\ pad \in {FALSE} /\ ovf \in {FALSE, TRUE}
        /\ st = [wb |-> NewWB(w, pad, ovf), tag |-> MainTag(T1), cur |-> T1]
Feed(c) ==
  /\ ~done /\ Len(fed) < MaxLen /\ ~st.wb.err
  /\ fed' = Append(fed, c)
  /\ st' = IF c = FRAG THEN [st EXCEPT !.wb.word = Append(@, FRAG)]
           ELSE IF c = TSW
           THEN LET t == IF st.cur = T1 THEN T2 ELSE T1 IN
                \* a new add_text call starts: tag = wrap_tag if pre_wrapped else main_tag
                [st EXCEPT !.cur = t, !.tag = IF st.wb.prew THEN ContTag(t) ELSE MainTag(t)]
           ELSE LET r == AddChar([wb |-> st.wb, tag |-> st.tag], c, mode, MainTag(st.cur), ContTag(st.cur))
                IN [st EXCEPT !.wb = r.wb, !.tag = r.tag]
  /\ UNCHANGED <<w, mode, pad, ovf, done>>
Fin == /\ ~done /\ done' = TRUE
       /\ st' = IF st.wb.err THEN st
                ELSE [st EXCEPT !.wb = LET trailing == ~HasStr(st.wb.word) IN
                                       Finish([st.wb EXCEPT !.word = IF trailing THEN <<>> ELSE @])]
       /\ UNCHANGED <<fed, w, mode, pad, ovf>>
Next == (\E c \in Alphabet : Feed(c)) \/ Fin
Spec == Init /\ [][Next]_vars

(* ---------------- invariants ---------------- *)
wb == st.wb
RealCells == SelectSeq(fed, LAMBDA c : c[1] >= 0)
Held == Concat(wb.text) \o wb.line \o wb.word
\* C02: no finished or current line is wider than the block (unless overflow is allowed)
Inv_Width == (~ovf /\ ~wb.err) => /\ \A i \in 1..Len(wb.text) : SumW(wb.text[i]) <= w
                                   /\ SumW(wb.line) <= w
\* with overflow: a line is over-wide only if it is one single over-wide character
Inv_Overflow == ovf => /\ ~wb.err
                       /\ \A i \in 1..Len(wb.text) : SumW(wb.text[i]) > w =>
                            Cardinality({j \in 1..Len(wb.text[i]) : CWp(wb.text[i][j]) > 0}) = 1
\* C03: every non-whitespace character fed is held exactly once, in order
Inv_Conserve == ~wb.err => NonWs(SelectSeq(Held, LAMBDA x : ~IsFrag(x))) = NonWs(SelectSeq(RealCells, LAMBDA c : CW(c) >= 0))
\* C14: every fragment marker recorded is held exactly once (in word or line), until the final flush
\* hands trailing ones to the sub-renderer
Inv_Frags == (~wb.err /\ ~done) => Len(SelectSeq(Held, IsFrag)) = Len(SelectSeq(fed, LAMBDA c : c = FRAG))
\* C04: in normal flow the result is the greedy filling of the words
ZeroOnlyWord == \E i \in 1..Len(SplitWords(RealCells)) : SumW(SplitWords(RealCells)[i]) = 0
Inv_Greedy == (done /\ mode = "Normal" /\ ~ZeroOnlyWord) =>
                 LET g == Greedy(SplitWords(RealCells), w) IN
                 IF ovf THEN (~g.err => [i \in 1..Len(wb.text) |-> Plain(NoFrags(wb.text[i]))] = g.lines)
                 ELSE /\ wb.err = g.err
                      /\ ~g.err => [i \in 1..Len(wb.text) |-> Plain(NoFrags(wb.text[i]))] = g.lines
\* C13: collapsible whitespace is idempotent and interchangeable in normal flow
Inv_WsIdem == (mode = "Normal" /\ ~done /\ ~wb.err) =>
                \A c1, c2 \in {sp_, nl_, tab_} :
                   LET r1 == AddChar([wb |-> wb, tag |-> st.tag], c1, mode, st.tag, st.tag)
                       r2 == AddChar(r1, c2, mode, st.tag, st.tag) IN
                   /\ r1.wb = r2.wb
                   /\ AddChar([wb |-> wb, tag |-> st.tag], c2, mode, st.tag, st.tag).wb = r1.wb
\* C12: continuation tag discipline in <pre>: every item of the first piece of a source line carries
\* P0, overflow pieces P1 (checked on finished lines)
\* C11: no line of a padded block is shorter than the width
Inv_Pad == (pad /\ ~wb.err) => \A i \in 1..Len(wb.text) : SumW(wb.text[i]) >= w

(* ---------------- behaviour emission ---------------- *)
TextCells == SelectSeq(fed, LAMBDA c : c[1] >= 0)
HasMarks == \E i \in 1..Len(fed) : fed[i][1] < 0
Pred == IF wb.err THEN [k |-> "narrow", lines |-> <<>>]
        ELSE [k |-> "ok", lines |-> [i \in 1..Len(wb.text) |-> Plain(NoFrags(wb.text[i]))]]
\* the document: <p>text</p> (Normal) or <pre>text</pre>; tag switches / markers are not concretised
Beh == [id |-> "mcwrap", 
        body |-> << [k |-> "e", n |-> IF mode = "Pre" THEN "pre" ELSE "p", h |-> TRUE, a |-> [x \in {} |-> 0],
                     c |-> << [k |-> "t", s |-> TextCells] >>] >>,
        runs |-> << [w |-> w, cfg |-> [deco |-> "plain", ops |-> IF ovf THEN << <<"overflow">> >> ELSE <<>>], route |-> "string", b |-> 1] >>,
        meta |-> [pred |-> << Pred >>, src |-> "MC_Wrap"]]
Inv_Emit == (Emit /\ done /\ ~HasMarks /\ TextCells # <<>> /\ mode # "PreWrap") => PrintT(<<"BEH", ToJson(Beh)>>)
=============================================================================
