------------------------------ MODULE MC_Block ------------------------------
(* Bounded exhaustive exploration of the renderer on documents built from a small block grammar:
   every document of up to MaxTop top-level items from Flow(Scope), every width in Widths, every
   configuration in Cfgs.  Building a document is one action per item; rendering is one TLC state
   per work item of the step machine (Render!RStep), with the invariants evaluated in every
   intermediate state.  Terminal states apply the property predicates of Props to the model's
   result and emit the behaviour for replay on the real library. *)
EXTENDS Render, Props, KnownFindings, Json, TLCExt
CONSTANTS MaxTop, Widths, Scope, CfgNames, Emit

NoA == [x \in {} |-> 0]
T(s) == [k |-> "t", s |-> s]
E(n, c) == [k |-> "e", n |-> n, h |-> TRUE, a |-> NoA, ao |-> <<>>, c |-> c]
EA(n, a, ao, c) == [k |-> "e", n |-> n, h |-> TRUE, a |-> a, ao |-> ao, c |-> c]
Str(codes) == [i \in 1..Len(codes) |-> <<codes[i], IF codes[i] = 19968 THEN 2 ELSE IF codes[i] = 769 THEN 0 ELSE IF codes[i] \in {9, 10} THEN -1 ELSE 1>>]
tAB == T(Str(<<97, 98>>))                        \* "ab"
tTwo == T(Str(<<99, 100, 32, 101>>))             \* "cd e"
tWide == T(Str(<<19968, 102>>))                  \* "一f"
tLong == T(Str(<<103, 104, 105, 106, 107, 108, 109>>))   \* "ghijklm"
tSp == T(Str(<<32>>))
tLead == T(Str(<<32, 110, 10, 111, 32>>))        \* " n\no "
tPre == T(Str(<<112, 32, 32, 113, 10, 9, 114>>)) \* "p  q\n\tr"
Href == [s |-> "//0.0/1", c |-> Str(<<47, 47, 48, 46, 48, 47, 49>>)]
Texts == IF Scope = "q" THEN {tAB, tTwo, tWide} ELSE {tAB, tTwo, tWide, tLong, tSp, tLead}
Br == E("br", <<>>)
Inl0 == Texts \cup {Br}
Inl1 == Inl0
        \cup { E("em", <<x>>) : x \in {tAB, tTwo} }
        \cup { EA("a", [href |-> Href], <<"href">>, <<x>>) : x \in {tAB, tWide} }
        \cup { E("s", <<tTwo>>) }
        \cup { EA("span", [id |-> "i1"], <<"id">>, <<tAB>>) }
        \cup (IF Scope = "q" THEN {} ELSE
               { E("strong", <<tAB>>), E("code", <<tTwo>>), EA("a", [href |-> Href], <<"href">>, <<>>),
                 EA("img", [alt |-> Str(<<115, 116>>), src |-> "//0.0/2"], <<"src", "alt">>, <<>>),
                 EA("a", [name |-> "n1"], <<"name">>, <<tLong>>) })
Blocks0 == { E("p", <<x>>) : x \in {tTwo, tLong} }
           \cup { E("p", <<tAB, E("em", <<tTwo>>)>>), E("h2", <<tTwo>>), E("pre", <<tPre>>) }
           \cup { E("blockquote", <<x>>) : x \in {tTwo, E("p", <<tLong>>)} }
           \cup { E("ul", <<E("li", <<tTwo>>), E("li", <<tAB>>)>>) }
           \cup { EA("ol", [start |-> [s |-> "9", c |-> Str(<<57>>)]], <<"start">>, <<E("li", <<tAB>>), E("li", <<tTwo>>)>>) }
           \cup (IF Scope = "q" THEN {} ELSE
                  { E("div", <<tAB, Br, tTwo>>), E("dl", <<E("dt", <<tAB>>), E("dd", <<tTwo>>)>>),
                    E("ul", <<E("li", <<E("ul", <<E("li", <<tLong>>)>>)>>)>>),
                    E("blockquote", <<E("blockquote", <<tTwo>>)>>),
                    EA("p", [id |-> "i2"], <<"id">>, <<tLong, tSp, tAB>>),
                    EA("ol", [start |-> [s |-> "-1", c |-> Str(<<45, 49>>)]], <<"start">>, <<E("li", <<tAB>>), E("li", <<tAB>>), E("li", <<tAB>>)>>),
                    E("h1", <<EA("a", [href |-> Href], <<"href">>, <<tAB>>)>>),
                    \* content directly in a list, a table with caption and foot, superscripts
                    E("ol", <<tAB, E("li", <<tTwo>>), tSp, E("em", <<tAB>>)>>),
                    E("dl", <<tAB, E("dt", <<tTwo>>), E("dd", <<tAB>>), tTwo>>),
                    E("table", << E("caption", <<tAB>>), E("tbody", << E("tr", << E("td", <<tTwo>>), E("td", <<>>) >>) >>),
                                  E("tfoot", << E("tr", << E("td", <<tAB>>), E("td", <<tWide>>) >>) >>) >>),
                    E("p", <<tAB, E("sup", <<T(Str(<<49, 50>>))>>), E("sup", <<T(Str(<<55>>)), E("em", <<tAB>>)>>)>>) })
(* ---- regular tables (Scope "tq" / "tt"): every cell is filled with copies of its own letter ---- *)
TScope == Scope \in {"tq", "tt"}
NCols == IF Scope = "tq" THEN {2} ELSE {2, 3}
Classes == IF Scope = "tq" THEN {"e", "s", "m"} ELSE {"e", "o", "m", "w"}      \* "o": one character (shorter than a span)
Tilings(n) == IF n = 2 THEN {<<1, 1>>, <<2>>} ELSE {<<1, 1, 1>>, <<2, 1>>, <<1, 2>>, <<3>>}
Letter(r, c) == 96 + (r - 1) * 3 + c                     \* row r, first grid column c -> a..f
CellText(r, c, cl) ==
  LET L == <<Letter(r, c), 1>> IN
  CASE cl = "e" -> <<>>
    [] cl = "s" -> <<L, L>>
    [] cl = "o" -> <<L>>
    [] cl = "m" -> <<L, L, <<32, 1>>, L>>
    [] cl = "w" -> <<<<19968, 2>>, L>>
    [] OTHER -> <<L, L, L, L, L, L, L>>
\* a row = [til, cls]: tiling and one class per cell
RowSpecs == UNION { { [til |-> t, cls |-> cs] : cs \in [1..Len(t) -> Classes] } : t \in UNION {Tilings(n) : n \in NCols} }
RowNode(r, rs) ==
  LET starts == [j \in 1..Len(rs.til) |-> SumSeq(SubSeq(rs.til, 1, j - 1)) + 1] IN
  E("tr", [j \in 1..Len(rs.til) |->
             LET txt == CellText(r, starts[j], rs.cls[j])
                 kids == IF txt = <<>> THEN <<>> ELSE <<T(txt)>> IN
             IF rs.til[j] = 1 THEN E("td", kids)
             ELSE EA("td", [colspan |-> [s |-> ToString(rs.til[j]), c |-> Str(<<48 + rs.til[j]>>)]], <<"colspan">>, kids)])
RowCells(r, rs) ==
  LET starts == [j \in 1..Len(rs.til) |-> SumSeq(SubSeq(rs.til, 1, j - 1)) + 1] IN
  [j \in 1..Len(rs.til) |-> [r |-> r, c0 |-> starts[j], c1 |-> starts[j] + rs.til[j] - 1, code |-> Letter(r, starts[j]),
                              n |-> Len(SelectSeq(CellText(r, starts[j], rs.cls[j]), LAMBDA x : x[1] = Letter(r, starts[j])))]]
Flow == IF TScope THEN {} ELSE Inl1 \cup Blocks0

CfgOfName(nm) ==
  CASE nm = "plain" -> [deco |-> "plain", ops |-> <<>>]
    [] nm = "rich" -> [deco |-> "rich", ops |-> <<>>]
    [] nm = "trivial" -> [deco |-> "trivial", ops |-> <<>>]
    [] nm = "pad" -> [deco |-> "plain", ops |-> << <<"pad">> >>]
    [] nm = "overflow" -> [deco |-> "plain", ops |-> << <<"overflow">> >>]
    [] nm = "maxwrap3" -> [deco |-> "rich", ops |-> << <<"max_wrap", 3>> >>]
    [] nm = "nofoot" -> [deco |-> "plain", ops |-> << <<"footnotes", FALSE>>, <<"strike", FALSE>> >>]
    [] OTHER -> [deco |-> "plain_nd", ops |-> <<>>]

VARIABLES doc, phase, w, cfgn, st, result, rowspecs
vars == <<doc, phase, w, cfgn, st, result, rowspecs>>
NoSt == [stk |-> <<>>, links |-> <<>>, todo |-> <<>>, acc |-> <<>>, err |-> ""]
NoRes == [k |-> "none", lines |-> <<>>, why |-> ""]
cfg == CfgOfName(cfgn)
cf == Cf(cfg)

Init == doc = <<>> /\ phase = "build" /\ w = 0 /\ cfgn = "plain" /\ st = NoSt /\ result = NoRes /\ rowspecs = <<>>
Add(n) == /\ phase = "build" /\ Len(doc) < MaxTop
          /\ doc' = Append(doc, n) /\ UNCHANGED <<phase, w, cfgn, st, result, rowspecs>>
\* table scopes: rows are added one at a time (all rows tile the same number of columns)
AddRow(rs) == /\ TScope /\ phase = "build" /\ Len(rowspecs) < MaxTop
              /\ IF rowspecs = <<>> THEN TRUE ELSE SumSeq(rs.til) = SumSeq(rowspecs[1].til)
              /\ rowspecs' = Append(rowspecs, rs)
              /\ doc' = << E("table", << E("tbody", [r \in 1..Len(rowspecs') |-> RowNode(r, rowspecs'[r])]) >>) >>
              /\ UNCHANGED <<phase, w, cfgn, st, result>>
Start(width, nm) ==
  /\ phase = "build" /\ doc # <<>>
  /\ w' = width /\ cfgn' = nm /\ phase' = "render"
  /\ st' = Init0(RenderTreeOf(doc, Cf(CfgOfName(nm))), width, Cf(CfgOfName(nm)))
  /\ UNCHANGED <<doc, result, rowspecs>>
Step == /\ phase = "render" /\ st.todo # <<>> /\ st.err = ""
        /\ st' = RStep(st, cf) /\ UNCHANGED <<doc, phase, w, cfgn, result, rowspecs>>
Fin == /\ phase = "render" /\ (st.todo = <<>> \/ st.err # "")
       /\ result' = Finalise(st, cf) /\ phase' = "done" /\ UNCHANGED <<doc, w, cfgn, st, rowspecs>>
Next == (\E n \in Flow : Add(n)) \/ (\E rs \in RowSpecs : AddRow(rs)) \/ (\E width \in Widths, nm \in CfgNames : Start(width, nm)) \/ Step \/ Fin
Spec == Init /\ [][Next]_vars

(* ---------------- invariants on every intermediate state ---------------- *)
Rendering == phase = "render" /\ st.err = ""
AllSubs == st.stk \o Concat(st.acc)
\* C02: no line of any (sub-)renderer is wider than that renderer; the wrapped block stays inside it
Inv_C02_Step ==
  (Rendering /\ ~cf.overflow) =>
    \A k \in 1..Len(AllSubs) :
      LET r == AllSubs[k] IN
      /\ \A j \in 1..Len(r.lines) : (IF r.lines[j].b THEN Len(r.lines[j].c) ELSE SumW(r.lines[j].c)) <= r.width
      /\ IsNull(r.wb) \/ (r.wb.width <= r.width /\ SumW(r.wb.line) <= r.wb.width
                          /\ \A j \in 1..Len(r.wb.text) : SumW(r.wb.text[j]) <= r.wb.width)
\* C03: conservation of letters over emitted lines, wrapped blocks and pending work
RECURSIVE RLetters(_)
RLetters(n) == IF n.kind = "Text" THEN Letters(n.s)
               ELSE IF n.kind = "Img" THEN Letters(n.alt)
               ELSE IF "c" \in DOMAIN n THEN Concat([i \in 1..Len(n.c) |-> RLetters(n.c[i])]) ELSE <<>>
ItemLetters(it) == IF it.e = "node" THEN RLetters(it.n)
                   ELSE IF it.e = "row" THEN RLetters(it.row)
                   ELSE IF it.e = "cell" THEN RLetters(it.cell) ELSE <<>>
SubLetters(r) == Concat([j \in 1..Len(r.lines) |-> IF r.lines[j].b THEN <<>> ELSE Letters(r.lines[j].c)])
                 \o (IF IsNull(r.wb) THEN <<>> ELSE Letters(Concat(r.wb.text) \o r.wb.line \o r.wb.word))
Inv_C03_Step ==
  Rendering => BagOf(Concat([k \in 1..Len(AllSubs) |-> SubLetters(AllSubs[k])])
                     \o Concat([k \in 1..Len(st.todo) |-> ItemLetters(st.todo[k])]))
               = BagOf(Letters(FlowTextSeq(doc)))
\* C08: references emitted so far never exceed the links registered (global numbering)
\* C09: annotation / filter / white-space stacks are restored when the work list is empty
Inv_C09_Balanced ==
  (phase = "render" /\ st.err = "" /\ st.todo = <<>>) =>
     /\ Len(st.stk) = 1 /\ st.acc = <<>>
     /\ st.stk[1].ann = <<>> /\ st.stk[1].filt = 0 /\ st.stk[1].ws = <<>> /\ st.stk[1].pre = 0
\* C01: no panic state is reachable
Inv_C01 == (phase = "render" => st.err \in {"", "narrow"}) /\ (phase = "done" => result.k \in {"ok", "narrow"})
\* C11: with overflow allowed and width >= 1 rendering never reports TooNarrow
Inv_C11 == (phase = "done" /\ cf.overflow /\ w >= 1) => result.k = "ok"

(* ---------------- property predicates on the model's result ---------------- *)
Meta == IF TScope THEN [cells |-> Concat([r \in 1..Len(rowspecs) |-> RowCells(r, rowspecs[r])])] ELSE [x \in {} |-> 0]
Case == [id |-> "mc", doms |-> <<doc>>, meta |-> Meta,
         runs |-> << [d |-> 1, w |-> w, cfg |-> cfg, route |-> IF cfg.deco = "rich" THEN "lines" ELSE "string",
                      res |-> [k |-> result.k, lines |-> result.lines,
                               sw |-> [i \in 1..Len(result.lines) |-> SumW(result.lines[i])]]] >>]
Inv_P_C02 == phase = "done" => P_C02(Case)
Inv_P_C03 == phase = "done" => P_C03(Case)
Inv_P_C05 == (phase = "done" /\ TScope /\ cf.borders /\ cfg.deco = "plain") => (P_C05(Case) \/ KF_Table(Case) # "")
Inv_P_C06 == (phase = "done" /\ TScope /\ cf.borders /\ cfg.deco = "plain") => (P_C06(Case) \/ KF_Table(Case) # "")
\* C06: the column allocation never exceeds the width, never starves a column that holds text, and the
\* shrink loop never gets stuck (evaluated when the table node is entered)
Inv_Alloc == (phase = "render" /\ st.err = "" /\ st.todo # <<>> /\ Head(st.todo).e = "node" /\ Head(st.todo).n.kind = "Table") =>
               LET t == Head(st.todo).n
                   lay == TableLayout(t, Top(st).width, cf)
                   es == TableColSizes(t, cf) IN
               /\ ~lay.stuck
               /\ ~lay.vert => /\ lay.tw <= Top(st).width
                                /\ \A i \in 1..t.ncols : es[i].size > 0 => lay.cw[i] > 0
Inv_P_C08 == phase = "done" => P_C08(Case)
Inv_P_C09 == (phase = "done" /\ cfg.deco = "rich") => P_C09(Case)
Inv_P_C14 == (phase = "done" /\ cfg.deco = "rich") => P_C14(Case)

(* ---------------- relational properties on the model (C11 / C13 / C15) ---------------- *)
\* the second (third) run of each relation is the specification's own rendering under the related
\* configuration / document; the predicates are the ones that judge real executions
CfgD(c0) == c0 @@ [ds |-> Cf(c0).ds]
WithOp(c0, op) == [c0 EXCEPT !.ops = Append(@, op)]
ResOf(m) == [k |-> m.k, lines |-> m.lines, sw |-> [i \in 1..Len(m.lines) |-> SumW(m.lines[i])]]
RouteOf(c0) == IF c0.deco = "rich" THEN "lines" ELSE "string"
MRunD(d, c0, width, tag) == [d |-> d, w |-> width, cfg |-> CfgD(c0), route |-> RouteOf(c0), tag |-> tag,
                             res |-> ResOf(RenderDoc(IF d = 1 THEN doc ELSE <<>>, c0, width))]
MRun(c0, width, tag) == MRunD(1, c0, width, tag)
BaseRun(tag) == [d |-> 1, w |-> w, cfg |-> CfgD(cfg), route |-> RouteOf(cfg), tag |-> tag, res |-> ResOf(result)]
RelCase(runs, meta) == [id |-> "mcrel", doms |-> <<doc>>, meta |-> meta, runs |-> runs]
Inv_Rel_C11 == phase = "done" =>
  P_C11(RelCase(<< MRun(cfg, 0, "zero"), BaseRun("base"), MRun(WithOp(cfg, <<"overflow">>), w, "ovf") >>, [x \in {} |-> 0]))
\* C13: every collapsible white-space character doubled, spaces turned into newlines (outside <pre>)
RECURSIVE WsVar(_)
WsVarSeq(ns) == [i \in 1..Len(ns) |-> WsVar(ns[i])]
WsVar(n) == IF n.k = "t" THEN [n EXCEPT !.s = Concat([i \in 1..Len(n.s) |-> IF IsWs(n.s[i]) THEN << n.s[i], <<NL, -1>> >> ELSE << n.s[i] >>])]
            ELSE IF n.k # "e" \/ n.n = "pre" THEN n
            ELSE [n EXCEPT !.c = WsVarSeq(@)]
Inv_Rel_C13 == phase = "done" =>
  LET d2 == WsVarSeq(doc)
      r2 == [d |-> 2, w |-> w, cfg |-> CfgD(cfg), route |-> RouteOf(cfg), tag |-> "", res |-> ResOf(RenderDoc(d2, cfg, w))] IN
  P_C13([id |-> "mcrel", doms |-> <<doc, d2>>, meta |-> [x \in {} |-> 0], runs |-> << BaseRun(""), r2 >>])
\* C15: one option at a time on top of the configuration of the state
RelOpts == { <<"pad", 0>>, <<"max_wrap", w>>, <<"max_wrap", w + 2>>, <<"max_wrap", 3>>, <<"noborders", 0>>, <<"raw", 0>>,
             <<"nolinkwrap", 0>>, <<"min_wrap", 1>>, <<"strike", 0>>, <<"footnotes", 0>> }
OptCase(o) ==
  LET two == o[1] \in {"strike", "footnotes"}          \* run 1 has the option TRUE, run 2 FALSE
      c1 == IF two THEN WithOp(cfg, <<o[1], TRUE>>) ELSE cfg
      c2 == CASE o[1] \in {"max_wrap", "min_wrap"} -> WithOp(cfg, <<o[1], o[2]>>)
              [] o[1] = "raw" -> WithOp(cfg, <<"raw", TRUE>>)
              [] two -> WithOp(cfg, <<o[1], FALSE>>)
              [] OTHER -> WithOp(cfg, <<o[1]>>)
      r1 == IF two THEN MRun(c1, w, "") ELSE BaseRun("") IN
  RelCase(<< r1, MRun(c2, w, "") >>, [opt |-> o[1], arg |-> o[2]])
\* (an option the configuration already sets would be overridden, not added)
Inv_Rel_C15 == phase = "done" => \A o \in RelOpts : HasOp(cfg, o[1]) \/ LET c == OptCase(o) IN P_C15(c) \/ KF_C15(c) # ""

\* C07: a document that is one list / quote / heading is the prefixes composed with the
\* specification's renderings of its items at the narrower width (link-free: footnote numbers are global)
C07Block(n) == n.k = "e" /\ n.n \in {"blockquote", "ul", "ol", "h1", "h2"}
\* the items of a list: the children of each <li>; content written directly in the list is an item of its own
\* (in <ol> only if it is not empty, or it would take a number)
C07Items(n) == IF n.n \in {"ul", "ol"}
               THEN LET keep == SelectSeq(n.c, LAMBDA x : IsHtml(x, "li") \/ n.n = "ul" \/ NonWs(FlowText(x)) # <<>>) IN
                    [i \in 1..Len(keep) |-> IF IsHtml(keep[i], "li") THEN keep[i].c ELSE << keep[i] >>]
               ELSE << n.c >>
C07Start(n) == IF n.n = "ol" /\ HasAttr(n, "start") THEN ParseInt(n.a.start.c, TRUE, 1) ELSE 1
C07PW(n) == CASE n.n = "blockquote" -> SumW(cf.ds.quote)
              [] n.n = "ul" -> SumW(cf.ds.ul)
              [] n.n = "ol" -> Max2(SumW(OlPrefix(cf, C07Start(n))), SumW(OlPrefix(cf, C07Start(n) + Max2(Len(C07Items(n)), 1) - 1)))
              [] n.n = "h1" -> SumW(cf.ds.hdr[1])
              [] OTHER -> SumW(cf.ds.hdr[2])
Inv_Rel_C07 ==
  (phase = "done" /\ Len(doc) = 1 /\ C07Block(doc[1]) /\ ~HasLinkEl(doc)) =>
    LET n == doc[1]  its == C07Items(n)  pw == C07PW(n)
        aux == [i \in 1..Len(its) |-> [d |-> 1 + i, w |-> w - pw, cfg |-> CfgD(cfg), route |-> RouteOf(cfg), tag |-> "",
                                        res |-> ResOf(RenderDoc(its[i], cfg, w - pw))]] IN
    w - pw >= 1 => P_C07([id |-> "mcrel", doms |-> <<doc>> \o its, meta |-> [kind |-> n.n, start |-> C07Start(n)],
                          runs |-> << BaseRun("") >> \o aux])

(* ---------------- termination of the step machine (C01 on the model) ---------------- *)
\* every rendering that has started finishes: the work list is consumed (weak fairness on the steps)
LiveSpec == Spec /\ WF_vars(Step) /\ WF_vars(Fin)
Terminates == (phase = "render") ~> (phase = "done")

(* ---------------- behaviour emission ---------------- *)
Beh == [id |-> "mcblock", body |-> doc,
        runs |-> << [w |-> w, cfg |-> cfg, route |-> IF cfg.deco = "rich" THEN "lines" ELSE "string", b |-> 1] >>,
        meta |-> Meta @@ [pred |-> << [k |-> result.k,
                               lines |-> [i \in 1..Len(result.lines) |-> Plain(NoFrags(result.lines[i]))]] >>,
                  src |-> "MC_Block"]]
Inv_Emit == (Emit /\ phase = "done") => PrintT(<<"BEH", ToJson(Beh)>>)
=============================================================================
