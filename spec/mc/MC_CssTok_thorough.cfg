SPECIFICATION Spec
CONSTANTS
  MaxLen = 4
  Alphabet = {"p", ".x", "#", "*", ",", "{", "}", ":", ";", "color", "red", "#f00", "@media", "@", "(", ")", "[", "]", "/*", "*/", "'", "\"", "\\", " ", "!important", ">", "url(", ":nth-child(", "2n+1", "<!--"}
  Emit = TRUE
INVARIANTS Inv_Emit
CHECK_DEADLOCK FALSE
