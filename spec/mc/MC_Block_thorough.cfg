SPECIFICATION Spec
CONSTANTS
  MaxTop = 2
  Widths = {1, 2, 3, 4, 5, 6, 8, 12, 20}
  Scope = "t"
  CfgNames = {"plain", "rich", "trivial", "pad", "overflow", "maxwrap3", "nofoot"}
  Emit = TRUE
INVARIANTS Inv_C02_Step Inv_C03_Step Inv_C09_Balanced Inv_C01 Inv_C11 Inv_P_C02 Inv_P_C03 Inv_P_C08 Inv_P_C09 Inv_P_C14 Inv_Emit
CHECK_DEADLOCK FALSE
