SPECIFICATION Spec
CONSTANTS
  MaxOps = 5
  Widths = {0, 3, 9}
  Routes = {"string", "lines", "coloured"}
  CfgName = "rich"
  Emit = TRUE
  EmitOneIn = 4
INVARIANTS Inv_P_C10 Inv_LiveTreesClean Inv_Emit
CHECK_DEADLOCK FALSE
