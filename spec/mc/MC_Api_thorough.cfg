SPECIFICATION Spec
CONSTANTS
  MaxOps = 6
  Widths = {0, 3, 9}
  Routes = {"string", "lines", "coloured"}
  CfgName = "rich"
  Emit = TRUE
  EmitOneIn = 25
INVARIANTS Inv_P_C10 Inv_LiveTreesClean Inv_Emit
CHECK_DEADLOCK FALSE
