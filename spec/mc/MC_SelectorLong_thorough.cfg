SPECIFICATION Spec
CONSTANTS
  Mode = "selector"
  MaxNodes = 2
  MaxSteps = 3
  MaxDecls = 0
  Small = TRUE
  EmitOneIn = 80
  Emit = TRUE
INVARIANTS Inv_Selector Inv_Cascade Inv_Hide Inv_Emit
CHECK_DEADLOCK FALSE
