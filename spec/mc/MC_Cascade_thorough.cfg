SPECIFICATION Spec
CONSTANTS
  Mode = "cascade"
  MaxNodes = 0
  MaxSteps = 0
  MaxDecls = 3
  Small = TRUE
  EmitOneIn = 4
  Emit = TRUE
INVARIANTS Inv_Selector Inv_Cascade Inv_Hide Inv_Emit
CHECK_DEADLOCK FALSE
