SPECIFICATION Spec
CONSTANTS
  MaxWords = 3
  Widths = {1, 2, 3, 4, 5, 7, 9, 12}
  Emit = TRUE
INVARIANTS Inv_Greedy Inv_Width Inv_Emit
CHECK_DEADLOCK FALSE
