------------------------------- MODULE MC_Api -------------------------------
(* The public API as a protocol over handles (src/lib.rs `config`): one-shot routes
   (string_from_read / lines_from_read / coloured) and the staged route
   parse_html -> dom_to_render_tree -> RenderTree::clone -> render_to_string / render_to_lines,
   where rendering *consumes* the tree.  TLC explores every history of at most MaxOps calls over the
   documents Docs and widths Widths; each rendering's result is the specification's RenderDoc.
   The size-estimate caches live inside a tree and are filled by the rendering that consumes it, so a
   live tree never carries a cache (Inv_LiveTreesClean).  Terminal histories are emitted and replayed
   call by call on the real API. *)
EXTENDS Render, Props, Json, TLCExt
CONSTANTS MaxOps, Widths, Routes, CfgName, Emit, EmitOneIn

NoA == [x \in {} |-> 0]
T(s) == [k |-> "t", s |-> s]
E(n, c) == [k |-> "e", n |-> n, h |-> TRUE, a |-> NoA, ao |-> <<>>, c |-> c]
Str(codes) == [i \in 1..Len(codes) |-> <<codes[i], IF codes[i] = 19968 THEN 2 ELSE 1>>]
Doc1 == << E("p", <<T(Str(<<97, 98, 32, 99, 100, 101>>))>>), E("ul", <<E("li", <<T(Str(<<102, 103>>))>>)>>) >>
Doc2 == << E("table", <<E("tbody", <<E("tr", <<E("td", <<T(Str(<<104, 105>>))>>), E("td", <<T(Str(<<19968, 106>>))>>)>>)>>)>>),
           E("blockquote", <<T(Str(<<107, 108, 109>>))>>) >>
Docs == <<Doc1, Doc2>>
cfg == IF CfgName = "rich" THEN [deco |-> "rich", ops |-> <<>>] ELSE [deco |-> "plain", ops |-> <<>>]

VARIABLES hist, doms, trees
vars == <<hist, doms, trees>>
\* trees[t] = [doc, live, est]: est = "none" | "cached" (the estimate Cells inside the tree)
Init == hist = <<>> /\ doms = <<>> /\ trees = <<>>
Res(d, w) == LET r == RenderDoc(Docs[d], cfg, w) IN
             [k |-> r.k, lines |-> [i \in 1..Len(r.lines) |-> Plain(NoFrags(r.lines[i]))]]
OkRes == [k |-> "ok", lines |-> <<>>]
Op(name, d, k, t, w, route, res) == [op |-> name, doc |-> d, dom |-> k, tree |-> t, w |-> w, route |-> route, res |-> res]
Room == Len(hist) < MaxOps
Oneshot(d, w, route) == Room /\ hist' = Append(hist, Op("oneshot", d, 0, 0, w, route, Res(d, w))) /\ UNCHANGED <<doms, trees>>
Parse(d) == Room /\ Len(doms) < 2 /\ hist' = Append(hist, Op("parse", d, 0, 0, 0, "", OkRes)) /\ doms' = Append(doms, d) /\ UNCHANGED trees
MkTree(k) == Room /\ Len(trees) < 3 /\ hist' = Append(hist, Op("tree", 0, k, 0, 0, "", OkRes))
             /\ trees' = Append(trees, [doc |-> doms[k], live |-> TRUE, est |-> "none"]) /\ UNCHANGED doms
Clone(t) == Room /\ Len(trees) < 3 /\ trees[t].live /\ hist' = Append(hist, Op("clone", 0, 0, t, 0, "", OkRes))
            /\ trees' = Append(trees, [trees[t] EXCEPT !.live = TRUE]) /\ UNCHANGED doms
\* rendering consumes the tree; its caches are filled (and die with it)
Render(t, w, route) == Room /\ trees[t].live
                       /\ hist' = Append(hist, Op("render", 0, 0, t, w, route, Res(trees[t].doc, w)))
                       /\ trees' = [trees EXCEPT ![t] = [@ EXCEPT !.live = FALSE, !.est = IF w = 0 THEN @ ELSE "cached"]]
                       /\ UNCHANGED doms
Next == \/ \E d \in 1..Len(Docs), w \in Widths, r \in Routes : Oneshot(d, w, r)
        \/ \E d \in 1..Len(Docs) : Parse(d)
        \/ \E k \in 1..Len(doms) : MkTree(k)
        \/ \E t \in 1..Len(trees) : Clone(t)
        \/ \E t \in 1..Len(trees), w \in Widths, r \in Routes : Render(t, w, r)
Spec == Init /\ [][Next]_vars

Case == [id |-> "mc", doms |-> Docs, meta |-> [x \in {} |-> 0], runs |-> <<>>, hist |-> hist, cfg |-> cfg]
Inv_P_C10 == P_C10(Case)
Inv_LiveTreesClean == \A t \in 1..Len(trees) : trees[t].live => trees[t].est = "none"
NRenders == Cardinality({i \in 1..Len(hist) : hist[i].op \in {"oneshot", "render"}})
Beh == [id |-> "mcapi", docbodies |-> Docs, cfg |-> cfg,
        hist |-> [i \in 1..Len(hist) |-> [op |-> hist[i].op, doc |-> hist[i].doc, dom |-> hist[i].dom, tree |-> hist[i].tree,
                                           w |-> hist[i].w, route |-> IF hist[i].route = "" THEN "string" ELSE hist[i].route]],
        meta |-> [src |-> "MC_Api", predh |-> [i \in 1..Len(hist) |-> hist[i].res]]]
\* (thorough scope: millions of terminal histories - one in EmitOneIn is replayed on the real API)
Inv_Emit == (Emit /\ Len(hist) = MaxOps /\ NRenders >= 2 /\ hist[MaxOps].op \in {"oneshot", "render"} /\ (EmitOneIn = 1 \/ RandomElement(1..EmitOneIn) = 1)) => PrintT(<<"BEH", ToJson(Beh)>>)
=============================================================================
