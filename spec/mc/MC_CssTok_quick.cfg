SPECIFICATION Spec
CONSTANTS
  MaxLen = 3
  Alphabet = {"p", ".x", "#", "*", ",", "{", "}", ":", ";", "color", "red", "@media", "@", "(", "[", "/*", "*/", "'", "\\", " ", "!important", ">", "url(", ":nth-child(", "2n+1", ")"}
  Emit = TRUE
INVARIANTS Inv_Emit
CHECK_DEADLOCK FALSE
