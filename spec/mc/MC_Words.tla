------------------------------ MODULE MC_Words ------------------------------
(* Word-level exhaustive check of C04: every sequence of up to MaxWords words drawn from Shapes
   (display widths 1..7, with wide and zero-width members), at every width in Widths: the line
   filler (Wrap!AddText + Finish) produces exactly Greedy(words, width), and reports TooNarrow
   exactly when Greedy does. *)
EXTENDS Wrap, Json, TLCExt
CONSTANTS MaxWords, Widths, Emit
n_(k) == [i \in 1..k |-> <<96 + i, 1>>]
wd_ == <<19968, 2>>  z_ == <<769, 0>>
Shapes == { n_(k) : k \in 1..7 } \cup { <<wd_>>, <<<<97, 1>>, wd_>>, <<wd_, <<98, 1>>, wd_>>, <<<<97, 1>>, z_>>, <<wd_, wd_, wd_, <<99, 1>>>> }
VARIABLES ws, w, done
vars == <<ws, w, done>>
Init == ws = <<>> /\ w = 0 /\ done = FALSE
AddWord(s) == ~done /\ Len(ws) < MaxWords /\ ws' = Append(ws, s) /\ UNCHANGED <<w, done>>
Check(width) == ~done /\ ws # <<>> /\ w' = width /\ done' = TRUE /\ UNCHANGED ws
Next == (\E s \in Shapes : AddWord(s)) \/ (\E width \in Widths : Check(width))
Spec == Init /\ [][Next]_vars
Text == FoldLeft(LAMBDA acc, i : acc \o (IF i > 1 THEN <<C2(32)>> ELSE <<>>) \o ws[i], <<>>, [i \in 1..Len(ws) |-> i])
Out == Finish(AddText(NewWB(w, FALSE, FALSE), Text, "Normal", <<>>, <<>>))
G == Greedy(ws, w)
Inv_Greedy == done => /\ Out.err = G.err
                      /\ ~G.err => [i \in 1..Len(Out.text) |-> Plain(Out.text[i])] = G.lines
Inv_Width == (done /\ ~Out.err) => \A i \in 1..Len(Out.text) : SumW(Out.text[i]) <= w
Beh == [id |-> "mcwords",
        body |-> << [k |-> "e", n |-> "p", h |-> TRUE, a |-> [x \in {} |-> 0], c |-> << [k |-> "t", s |-> Text] >>] >>,
        runs |-> << [w |-> w, cfg |-> [deco |-> "rich", ops |-> <<>>], route |-> "string", b |-> 1] >>,
        meta |-> [pw |-> 0, m |-> -1, src |-> "MC_Words",
                  pred |-> << IF Out.err THEN [k |-> "narrow", lines |-> <<>>]
                              ELSE [k |-> "ok", lines |-> [i \in 1..Len(Out.text) |-> Plain(Out.text[i])]] >>]]
Inv_Emit == (Emit /\ done) => PrintT(<<"BEH", ToJson(Beh)>>)
=============================================================================
