SPECIFICATION Spec
CONSTANTS
  MaxW = 10
  Guarded = TRUE
  MaxN = 6
INVARIANTS Inv_Bound Inv_Shrink Inv_Tab
PROPERTY Terminates
CHECK_DEADLOCK FALSE
