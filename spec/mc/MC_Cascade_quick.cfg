SPECIFICATION Spec
CONSTANTS
  Mode = "cascade"
  MaxNodes = 0
  MaxSteps = 0
  MaxDecls = 2
  Small = TRUE
  EmitOneIn = 1
  Emit = TRUE
INVARIANTS Inv_Selector Inv_Cascade Inv_Hide Inv_Emit
CHECK_DEADLOCK FALSE
