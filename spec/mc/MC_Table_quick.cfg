SPECIFICATION Spec
CONSTANTS
  MaxTop = 2
  Widths = {1, 2, 3, 4, 5, 6, 7, 8, 10}
  Scope = "tq"
  CfgNames = {"plain"}
  Emit = TRUE
INVARIANTS Inv_C02_Step Inv_C03_Step Inv_C09_Balanced Inv_C01 Inv_Alloc Inv_P_C02 Inv_P_C03 Inv_P_C05 Inv_P_C06 Inv_Emit
CHECK_DEADLOCK FALSE
