SPECIFICATION Spec
CONSTANTS
  MaxLen = 4
  Atoms = {"G1", "B1", "p", "*", ">", "+", "~", ",", ":2", ":odd"}
  Emit = TRUE
  EmitOneIn = 1
INVARIANTS Inv_Syntax Inv_Stop Inv_Emit
CHECK_DEADLOCK FALSE
