------------------------------- MODULE MC_Css -------------------------------
(* Bounded exhaustive checks of the CSS part of the specification (Css.tla):
     Mode = "selector": every element tree of at most MaxNodes nodes (names {a, b}, class x, one id,
                        text children) x every selector of at most MaxSteps compounds (element, class,
                        id, *, descendant / child, :nth-child(an+b)): the transcription of
                        Selector::do_matches agrees with the declarative meaning on every node.
                        Three scopes (configurations MC_Selector, MC_SelectorId, MC_SelectorLong):
                        more nodes without ids (Small), ids on nodes and in compounds, selectors of
                        three compounds; the product of the three is 80.6 M states (checked once).
     Mode = "cascade":  every sequence of at most MaxDecls colour declarations drawn from
                        {agent, user, author, inline} x {normal, !important} x the five specificity
                        classes, all applying to one element: the MaybeUpdate fold in the code's
                        visiting order agrees with the reference cascade.
     Mode = "hide":     every tree x every display:none rule of one compound: the render tree of the
                        styled document equals the render tree of the document with the hidden
                        subtrees deleted (C18), checked on the model's rendering.
   Terminal states are emitted as documents + abstract sheets and replayed on the real library. *)
EXTENDS Render, Props, Json, TLCExt
CONSTANTS Mode, MaxNodes, MaxSteps, MaxDecls, Emit, Small, EmitOneIn

NoA == [x \in {} |-> 0]
T(s) == [k |-> "t", s |-> s]
Str(codes) == [i \in 1..Len(codes) |-> <<codes[i], 1>>]
\* node labels: [name, cls, id]; the i-th node carries the text "t" + letter i
Labels == [name : {"a", "b"}, cls : {<<>>, <<"x">>}, id : IF Small THEN {""} ELSE {"", "i"}]
Elem(lab, kids, i) ==
  LET attrs == (IF lab.cls # <<>> THEN [class |-> lab.cls] ELSE NoA) @@ (IF lab.id # "" THEN [id |-> lab.id] ELSE NoA)
      ao == (IF lab.cls # <<>> THEN <<"class">> ELSE <<>>) \o (IF lab.id # "" THEN <<"id">> ELSE <<>>) IN
  [k |-> "e", n |-> IF lab.name = "a" THEN "div" ELSE "span", h |-> TRUE, a |-> attrs, ao |-> ao,
   c |-> << T(Str(<<116, 96 + i>>)) >> \o kids]
\* a tree as parent vector + labels -> nested document (children in index order)
RECURSIVE Build(_, _, _)
Build(par, labs, i) == Elem(labs[i], [j \in 1..Cardinality({k \in 1..Len(par) : par[k] = i}) |->
                                   LET ks == {k \in 1..Len(par) : par[k] = i}
                                       kth == CHOOSE k \in ks : Cardinality({q \in ks : q < k}) = j - 1 IN Build(par, labs, kth)], i)
Body(par, labs) == LET roots == {k \in 1..Len(par) : par[k] = 0} IN
                   [j \in 1..Cardinality(roots) |->
                      Build(par, labs, CHOOSE k \in roots : Cardinality({q \in roots : q < k}) = j - 1)]
Html(body) == << [k |-> "e", n |-> "html", h |-> TRUE, a |-> NoA, ao |-> <<>>,
                  c |-> << [k |-> "e", n |-> "head", h |-> TRUE, a |-> NoA, ao |-> <<>>,
                            c |-> << [k |-> "e", n |-> "style", h |-> TRUE, a |-> NoA, ao |-> <<>>, c |-> << T(Str(<<83>>)) >>] >>],
                           [k |-> "e", n |-> "body", h |-> TRUE, a |-> NoA, ao |-> <<>>, c |-> body] >>] >>

Nths == IF Small THEN {<<>>, <<2, 1>>, <<-1, 2>>} ELSE {<<>>, <<2, 1>>, <<-1, 2>>, <<0, 2>>, <<3, -1>>}
Compounds(first) ==
  {c \in [comb : IF first THEN {""} ELSE {"desc", "child"}, name : {"", "div", "span"}, star : BOOLEAN,
          cls : {<<>>, <<"x">>}, id : IF Small THEN {""} ELSE {"", "i"}, nth : Nths] :
       /\ ~(c.star /\ c.name # "")
       /\ (c.name # "" \/ c.star \/ c.cls # <<>> \/ c.id # "" \/ c.nth # <<>>)
       /\ (Mode = "hide" => c.nth \in {<<>>, <<2, 1>>}) }
Star == [comb |-> "", name |-> "", star |-> TRUE, cls |-> <<>>, id |-> "", nth |-> <<>>]
ColDecl(v, imp) == [prop |-> "color", val |-> v, imp |-> imp]
Base == << [sels |-> << <<Star>> >>, decls |-> << ColDecl(<<0, 0, 1>>, FALSE) >>] >>

\* cascade mode: a declaration = [origin, imp, sc]; origin 4 = inline; sc = specificity class 1..5
SpecSel(sc) == CASE sc = 1 -> << [comb |-> "", name |-> "div", star |-> FALSE, cls |-> <<>>, id |-> "", nth |-> <<>>] >>
                 [] sc = 2 -> << [comb |-> "", name |-> "", star |-> FALSE, cls |-> <<"x">>, id |-> "", nth |-> <<>>] >>
                 [] sc = 3 -> << [comb |-> "", name |-> "", star |-> FALSE, cls |-> <<>>, id |-> "i", nth |-> <<>>] >>
                 [] sc = 4 -> << [comb |-> "", name |-> "div", star |-> FALSE, cls |-> <<"x">>, id |-> "", nth |-> <<>>] >>
                 [] OTHER -> << [comb |-> "", name |-> "", star |-> FALSE, cls |-> <<>>, id |-> "", nth |-> <<0, 1>>] >>
CDecls == [origin : 1..3, imp : BOOLEAN, sc : 1..5] \cup [origin : {4}, imp : BOOLEAN, sc : {0}]

VARIABLES par, labs, sel, decls, done
vars == <<par, labs, sel, decls, done>>
Init == par = <<>> /\ labs = <<>> /\ sel = <<>> /\ decls = <<>> /\ done = FALSE
AddNode(p, lab) == /\ Mode \in {"selector", "hide"} /\ ~done /\ sel = <<>> /\ Len(par) < MaxNodes
                   /\ par' = Append(par, p) /\ labs' = Append(labs, lab) /\ UNCHANGED <<sel, decls, done>>
AddComp(c) == /\ Mode \in {"selector", "hide"} /\ ~done /\ par # <<>> /\ Len(sel) < MaxSteps
              /\ sel' = Append(sel, c) /\ UNCHANGED <<par, labs, decls, done>>
AddDecl(d) == /\ Mode = "cascade" /\ ~done /\ Len(decls) < MaxDecls
              /\ decls' = Append(decls, d) /\ UNCHANGED <<par, labs, sel, done>>
Stop == /\ ~done /\ (IF Mode = "cascade" THEN decls # <<>> ELSE sel # <<>>)
          /\ done' = TRUE /\ UNCHANGED <<par, labs, sel, decls>>
Next == \/ \E p \in 0..Len(par), lab \in Labels : AddNode(p, lab)
        \/ \E c \in Compounds(sel = <<>>) : AddComp(c)
        \/ \E d \in CDecls : AddDecl(d)
        \/ Stop
Spec == Init /\ [][Next]_vars

(* ---------------- selector mode ---------------- *)
Dom == IF Mode = "cascade"
       THEN Html(<< [k |-> "e", n |-> "div", h |-> TRUE, ao |-> <<"class", "id">> \o (IF \E i \in 1..Len(decls) : decls[i].origin = 4 THEN <<"style">> ELSE <<>>),
                     a |-> [class |-> <<"x">>, id |-> "i"] @@
                           (IF \E i \in 1..Len(decls) : decls[i].origin = 4
                            THEN [style |-> [ok |-> TRUE, s |-> "",
                                             d |-> LET ix == SelectSeq([i \in 1..Len(decls) |-> i], LAMBDA i : decls[i].origin = 4) IN
                                                   [j \in 1..Len(ix) |-> ColDecl(<<ix[j], 0, 0>>, decls[ix[j]].imp)]]]
                            ELSE NoA),
                     c |-> << T(Str(<<116, 97>>)) >>] >>)
       ELSE Html(Body(par, labs))
RECURSIVE Paths(_, _)
Paths(ns, prefix) == UNION {{Append(prefix, i)} \cup (IF ns[i].k = "e" THEN Paths(ns[i].c, Append(prefix, i)) ELSE {}) : i \in 1..Len(ns)}
ElemPaths == {p \in Paths(Dom, <<>>) : NodeAt(Dom, p).k = "e"}
Inv_Selector == (Mode = "selector" /\ sel # <<>>) => \A p \in ElemPaths : RefMatch(Dom, sel, p) = Matches(Dom, sel, p)

(* ---------------- cascade mode ---------------- *)
SheetOf(o) == LET ix == SelectSeq([i \in 1..Len(decls) |-> i], LAMBDA i : decls[i].origin = o) IN
              [j \in 1..Len(ix) |-> [sels |-> << SpecSel(decls[ix[j]].sc) >>, decls |-> << ColDecl(<<ix[j], 0, 0>>, decls[ix[j]].imp) >>]]
Css == IF Mode = "cascade" THEN [agent |-> SheetOf(1), user |-> SheetOf(2), author |-> SheetOf(3), doc |-> TRUE]
       ELSE [agent |-> Base, user |-> <<>>,
             author |-> << [sels |-> <<sel>>, decls |-> << IF Mode = "hide" THEN [prop |-> "display", val |-> "none", imp |-> FALSE]
                                                           ELSE ColDecl(<<0, 0, 254>>, FALSE) >>] >>, doc |-> TRUE]
Target == <<1, 2, 1>>          \* html > body > the element
Inv_Cascade == (Mode = "cascade" /\ decls # <<>>) =>
                 LET inl == InlineDecls(NodeAt(Dom, Target), TRUE) IN
                 ComputedOp(Dom, Target, Css, inl, "color").val = Computed(Dom, Target, Css, inl, "color").val

(* ---------------- hide mode (C18 on the model) ---------------- *)
RichCfg == [deco |-> "rich", ops |-> << <<"doccss">> >>]
Inv_Hide == (Mode = "hide" /\ done) =>
              RenderDoc(Styled(Dom, Css), RichCfg, 12) = RenderDoc(Styled(DeleteHidden(Dom, Css), [Css EXCEPT !.author = <<>>]), RichCfg, 12)

(* ---------------- emission ---------------- *)
Pred == LET r == RenderDoc(Styled(Dom, Css), RichCfg, 30) IN
        [k |-> r.k, lines |-> [i \in 1..Len(r.lines) |-> Plain(NoFrags(r.lines[i]))]]
Beh == [id |-> "mccss", body |-> Dom,
        runs |-> << [w |-> 30, cfg |-> RichCfg, route |-> "lines", b |-> 1] >>,
        meta |-> [css |-> [agent |-> Css.agent, user |-> Css.user, author |-> Css.author], pred |-> <<Pred>>, src |-> "MC_Css", full |-> TRUE]]
Inv_Emit == (Emit /\ done /\ (Mode = "cascade" \/ (Len(par) = MaxNodes /\ Len(sel) = MaxSteps)) /\ RandomElement(1..EmitOneIn) = 1)
              => PrintT(<<"BEH", ToJson(Beh)>>)
=============================================================================
