SPECIFICATION Spec
CONSTANTS
  Mode = "selector"
  MaxNodes = 2
  MaxSteps = 2
  MaxDecls = 0
  Small = FALSE
  EmitOneIn = 80
  Emit = TRUE
INVARIANTS Inv_Selector Inv_Cascade Inv_Hide Inv_Emit
CHECK_DEADLOCK FALSE
