SPECIFICATION Spec
CONSTANTS
  MaxLen = 5
  Atoms = {"G1", "G2", "G3", "B1", ">", "!i", "p", "*", ",", "{", "}", ";", ":", "@m", "(", ")", "f(", "[", "]", "s", "<!--", "-->"}
  Emit = TRUE
  EmitOneIn = 6
INVARIANTS Inv_Syntax Inv_Stop Inv_Emit
CHECK_DEADLOCK FALSE
