SPECIFICATION Spec
CONSTANTS
  MaxTop = 2
  Widths = {2, 5, 8}
  Scope = "q"
  CfgNames = {"plain", "rich"}
  Emit = FALSE
INVARIANTS Inv_Rel_C11 Inv_Rel_C13 Inv_Rel_C15 Inv_Rel_C07
CHECK_DEADLOCK FALSE
