SPECIFICATION Spec
CONSTANTS
  Mode = "selector"
  MaxNodes = 3
  MaxSteps = 2
  MaxDecls = 0
  Small = FALSE
  EmitOneIn = 400
  Emit = TRUE
INVARIANTS Inv_Selector Inv_Cascade Inv_Hide Inv_Emit
CHECK_DEADLOCK FALSE
