SPECIFICATION LiveSpec
CONSTANTS
  MaxTop = 2
  Widths = {1, 3, 5, 8}
  Scope = "q"
  CfgNames = {"plain", "rich"}
  Emit = FALSE
PROPERTY Terminates
CHECK_DEADLOCK FALSE
