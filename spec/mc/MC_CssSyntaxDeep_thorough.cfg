SPECIFICATION Spec
CONSTANTS
  MaxLen = 7
  Atoms = {"G1", "p", "p:", "{", "}", ";", "f(", ")"}
  Emit = TRUE
  EmitOneIn = 6
INVARIANTS Inv_Syntax Inv_Stop Inv_Emit
CHECK_DEADLOCK FALSE
