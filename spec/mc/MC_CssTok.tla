----------------------------- MODULE MC_CssTok -----------------------------
(* Bounded exhaustive enumeration of style sheets as token sequences (C17, C01): every sequence of at
   most MaxLen tokens over Alphabet is a style sheet that the real library must survive:
     - as a user / agent sheet: add_css / add_agent_css return Ok or CssParseError, rendering returns
     - inside <style> of a document rendered with use_doc_css: same result kind and the same text as
       the document without the style element (the alphabet has no display / white-space / content /
       height / overflow, so nothing may change what is rendered).
   The character-level tokenizer and the recovery of the rule-set parser are explored through this
   enumeration, not modelled (DESIGN.md section 11): the specification supplies the call / return
   contract (Props!P_C17) and the scope.  Every reachable state is a sheet and is emitted. *)
EXTENDS Naturals, Sequences, TLC, Json
CONSTANTS MaxLen, Alphabet, Emit
VARIABLE toks
Init == toks = <<>>
Add(t) == Len(toks) < MaxLen /\ toks' = Append(toks, t)
Next == \E t \in Alphabet : Add(t)
Spec == Init /\ [][Next]_toks
Inv_Emit == (Emit /\ toks # <<>>) => PrintT(<<"BEH", ToJson([id |-> "mccsstok", csstoks |-> toks])>>)
=============================================================================
