-------------------------------- MODULE Tree --------------------------------
(* DOM -> render tree (src/lib.rs process_dom_node and the table constructors), and the size
   estimates (calc_size_estimate).  A render node is a record with field `kind` and, for elements,
   `sty` (the part of the computed style that rendering reads) and `c` (children).
   The configuration record cf is CfgOf(cfg) extended with `ds`, the decorator's strings. *)
EXTENDS Wrap, Dom, Api

Null == [null |-> TRUE]
IsNull(x) == "null" \in DOMAIN x

(* ---- decorator strings (what the built-in decorators return; custom ones are observed) ---- *)
Str1(k) == << C2(k) >>
DsBuiltin(deco) ==
  LET plainlike == deco \in {"plain", "plain_nd"}
      pre == deco # "trivial" IN
  [ link |-> IF plainlike THEN << Str1(91), Str1(93) >> ELSE << <<>>, <<>> >>,
    em |-> << <<>>, <<>> >>, strong |-> << <<>>, <<>> >>, strike |-> << <<>>, <<>> >>, code |-> << <<>>, <<>> >>,
    img |-> IF plainlike THEN << Str1(91), Str1(93) >> ELSE << <<>>, <<>> >>,
    sup |-> << << C2(94), C2(123) >>, Str1(125) >>,
    hdr |-> [l \in 1..6 |-> IF pre THEN Rep(C2(35), l) \o Str1(32) ELSE <<>>],
    quote |-> IF pre THEN << C2(62), C2(32) >> ELSE <<>>,
    ul |-> IF pre THEN << C2(42), C2(32) >> ELSE <<>>,
    olsuf |-> IF pre THEN << C2(46), C2(32) >> ELSE <<>>,
    olnum |-> pre ]
\* cf: effective configuration; from a trace the observed strings are used
Cf(cfg) == LET c == CfgOf(cfg)
               d == IF "ds" \in DOMAIN cfg
                    THEN [link |-> cfg.ds.link, em |-> cfg.ds.em, strong |-> cfg.ds.strong, strike |-> cfg.ds.strike,
                          code |-> cfg.ds.code, img |-> cfg.ds.img, sup |-> cfg.ds.sup, hdr |-> cfg.ds.hdr,
                          quote |-> cfg.ds.quote, ul |-> cfg.ds.ul, olsuf |-> cfg.ds.olsuf,
                          olnum |-> c.deco # "trivial"]
                    ELSE DsBuiltin(c.deco)
           IN [c EXCEPT !.css = <<>>, !.agentcss = <<>>] @@ [ds |-> d]
Rich(cf) == cf.deco = "rich"
Tag(cf, t) == IF Rich(cf) THEN t ELSE <<"U">>

(* ---- numbers ---- *)
RECURSIVE DigitsOf(_)
DigitsOf(n) == IF n < 10 THEN << C2(48 + n) >> ELSE Append(DigitsOf(n \div 10), C2(48 + (n % 10)))
NumCells(i) == IF i < 0 THEN << C2(45) >> \o DigitsOf(-i) ELSE DigitsOf(i)
OlPrefix(cf, i) == (IF cf.ds.olnum THEN NumCells(i) ELSE <<>>) \o cf.ds.olsuf
\* str::parse::<i64>/<usize> of an attribute value given as cells: optional sign, then digits only
ParseInt(cells, signed, dflt) ==
  LET codes == Codes(cells)
      neg == codes # <<>> /\ codes[1] = 45 /\ signed
      body == IF codes # <<>> /\ (codes[1] = 43 \/ neg) THEN Tail(codes) ELSE codes
      ok == body # <<>> /\ Len(body) <= 9 /\ \A i \in 1..Len(body) : body[i] \in 48..57
      mag == FoldLeft(LAMBDA a, d : a * 10 + (d - 48), 0, body)
  IN IF ok THEN (IF neg THEN -mag ELSE mag) ELSE dflt

(* ---- style: the part of ComputedStyle the renderer reads ---- *)
\* (cset: the ::before / ::after texts cb, ca were computed by the cascade of Css.tla; otherwise only the
\*  do_decorate() rules can apply and the marks are taken from DecoMark)
NoSty == [pre |-> FALSE, ws |-> "", fg |-> <<>>, bg |-> <<>>, none |-> FALSE, cset |-> FALSE, cb |-> <<>>, ca |-> <<>>]
StyOf(n) == IF "sty" \in DOMAIN n THEN n.sty ELSE NoSty

(* ---- render nodes ---- *)
TextNode(s) == [kind |-> "Text", s |-> s]
FragNode(name) == [kind |-> "FragStart", name |-> name]
Node(kind, sty, c) == [kind |-> kind, sty |-> sty, c |-> c]
ContainerKinds == {"Container", "Link", "Em", "Strong", "Strikeout", "Code", "Block", "ListItem", "Div",
                   "BlockQuote", "Dl", "Dt", "Dd", "Ul", "Ol", "Sup", "Header"}
ShallowEmpty(x) ==
  CASE x.kind = "Text" -> TrimL(x.s) = <<>>
    [] x.kind = "Img" -> TrimL(x.alt) = <<>>
    [] x.kind \in {"Break", "FragStart"} -> TRUE
    [] x.kind \in {"Table", "TableRow", "TableBody", "TableCell"} -> FALSE
    [] OTHER -> x.c = <<>>

\* is_deep_empty: looks through the nodes that only group other nodes
RECURSIVE DeepEmpty(_)
DeepEmpty(x) == IF x.kind \in {"Container", "Em", "Strong", "Strikeout", "Code", "Sup",
                                \* (blocks that only group their children)
                                "Block", "Div", "BlockQuote", "Ul", "Ol", "Dl", "Dt", "Dd", "ListItem"}
                THEN \A i \in 1..Len(x.c) : DeepEmpty(x.c[i])
                ELSE IF x.kind \in {"Table", "TableBody"}        \* a table is empty if all its cells are
                THEN \A i \in 1..Len(x.c) : \A j \in 1..Len(x.c[i].c) : \A k \in 1..Len(x.c[i].c[j].c) : DeepEmpty(x.c[i].c[j].c[k])
                ELSE ShallowEmpty(x)
\* insert_child(new, orig, position)
InsertChild(new, orig, atStart) ==
  LET ins(cs) == IF atStart THEN <<new>> \o cs ELSE Append(cs, new) IN
  CASE orig.kind \in {"Block", "ListItem", "Dd", "Dt", "Dl", "Div", "BlockQuote", "Container", "TableCell"} ->
         [orig EXCEPT !.c = ins(@)]
    [] orig.kind = "TableRow" ->
         IF orig.c = <<>> THEN orig ELSE [orig EXCEPT !.c[1].c = ins(@)]
    [] orig.kind \in {"TableBody", "Table"} ->
         \* the first cell (rows in order) that has content, else the first cell of the first row
         LET rows == orig.c
             HasCont(cell) == \E k \in 1..Len(cell.c) : ~DeepEmpty(cell.c[k])
             cand == {<<i, j>> \in UNION {{<<i2, j2>> : j2 \in 1..Len(rows[i2].c)} : i2 \in 1..Len(rows)} : HasCont(rows[i].c[j])}
             best == CHOOSE p \in cand : \A q \in cand : p[1] < q[1] \/ (p[1] = q[1] /\ p[2] <= q[2])
         IN IF cand # {} THEN [orig EXCEPT !.c[best[1]].c[best[2]].c = ins(@)]
            ELSE IF orig.c = <<>> \/ orig.c[1].c = <<>> THEN orig ELSE [orig EXCEPT !.c[1].c[1].c = ins(@)]
    [] OTHER -> Node("Container", NoSty, IF atStart THEN <<new, orig>> ELSE <<orig, new>>)

\* first id (or name, for <a>) attribute in source order
FragName(n) ==
  LET ao == IF "ao" \in DOMAIN n THEN n.ao
            ELSE (IF HasAttr(n, "id") THEN <<"id">> ELSE <<>>) \o (IF HasAttr(n, "name") THEN <<"name">> ELSE <<>>)
      names == SelectSeq(ao, LAMBDA a : a = "id" \/ (a = "name" /\ n.h /\ n.n = "a")) IN
  IF names = <<>> THEN Null ELSE [name |-> n.a[names[1]]]

DecoMark(n) == CASE n.n \in {"em", "dt"} -> Str1(42)
                 [] n.n = "strong" -> << C2(42), C2(42) >>
                 [] n.n = "code" -> Str1(96)
                 [] OTHER -> <<>>

\* tbody_to_render_tree: colspan = 0 replacement
FixZeroSpans(rows) ==
  LET info == [i \in 1..Len(rows) |->
                 [z |-> \E j \in 1..Len(rows[i].c) : rows[i].c[j].colspan = 0,
                  n |-> SumSeq([j \in 1..Len(rows[i].c) |-> Max2(rows[i].c[j].colspan, 1)])]]
      maxc == IF rows = <<>> THEN 1 ELSE FoldLeft(LAMBDA a, x : Max2(a, x.n), 0, info)
  IN [i \in 1..Len(rows) |->
        IF info[i].z
        THEN [rows[i] EXCEPT !.c = [j \in 1..Len(@) |-> IF @[j].colspan = 0 THEN [@[j] EXCEPT !.colspan = maxc - info[i].n + 1] ELSE @[j]]]
        ELSE rows[i]]

\* RenderTable::new column remapping
ColPositions(rows) ==
  {0} \cup UNION { { SumSeq([k \in 1..j |-> rows[i].c[k].colspan]) : j \in 1..Len(rows[i].c) } : i \in 1..Len(rows) }
RankIn(S, x) == Cardinality({y \in S : y < x})
RemapRow(row, S) ==
  LET r == FoldLeft(LAMBDA a, cell :
             LET np == a.pos + Max2(cell.colspan, 1)
                 nm == RankIn(S, np) IN
             [pos |-> np, mp |-> nm, out |-> Append(a.out, [cell EXCEPT !.colspan = nm - a.mp])],
             [pos |-> 0, mp |-> 0, out |-> <<>>], row.c)
  IN [row EXCEPT !.c = r.out]
Remap(rows) == LET S == ColPositions(rows) IN [i \in 1..Len(rows) |-> RemapRow(rows[i], S)]
NumCols(rows) == FoldLeft(LAMBDA a, r : Max2(a, SumSeq([j \in 1..Len(r.c) |-> Max2(r.c[j].colspan, 1)])), 0, rows)

RECURSIVE OnlyFrags(_)
OnlyFrags(x) == x.kind = "FragStart" \/ (x.kind = "Container" /\ \A i \in 1..Len(x.c) : OnlyFrags(x.c[i]))
RECURSIVE ToRender(_, _)
ToRenderSeq(ns, cf) == FoldLeft(LAMBDA acc, n : acc \o ToRender(n, cf), <<>>, ns)
ToRender(n, cf) ==
  IF n.k = "t" THEN << TextNode(n.s) >>
  ELSE IF n.k # "e" THEN <<>>
  ELSE LET sty == StyOf(n) IN
  IF sty.none THEN <<>>
  ELSE LET isIgnored == Ignored(n)
           cs == IF isIgnored \/ (n.h /\ n.n \in {"img", "br"}) THEN <<>> ELSE ToRenderSeq(n.c, cf)
           \* pending_noempty: nothing for no children; fragment markers alone are only passed on
           NE(node) == IF cs = <<>> THEN <<>>
                       ELSE IF \A i \in 1..Len(cs) : OnlyFrags(cs[i]) THEN << Node("Container", NoSty, cs) >>
                       ELSE << node >>
           nm == IF n.h THEN n.n ELSE "_foreign"
           res ==
             CASE nm \in {"html", "body"} -> << Node("Container", sty, cs) >>
               [] isIgnored -> <<>>
               [] nm = "span" -> NE(Node("Container", sty, cs))
               [] nm = "a" -> IF HasAttr(n, "href")
                              THEN (IF \E i \in 1..Len(cs) : ~DeepEmpty(cs[i])
                                    THEN << Node("Link", sty, cs) @@ [href |-> n.a.href] >>
                                    ELSE IF cs # <<>>
                                    THEN << Node("Container", sty, cs) >>      \* no link text: children kept, no link
                                    ELSE <<>>)
                              ELSE << Node("Container", sty, cs) >>
               [] nm \in {"em", "i", "ins"} -> << Node("Em", sty, cs) >>
               [] nm = "strong" -> << Node("Strong", sty, cs) >>
               [] nm \in {"s", "del"} -> << Node("Strikeout", sty, cs) >>
               [] nm = "code" -> << Node("Code", sty, cs) >>
               [] nm = "img" -> IF ImgVisible(n) THEN << [kind |-> "Img", sty |-> sty, alt |-> n.a.alt, src |-> n.a.src] >> ELSE <<>>
               [] nm \in {"h1", "h2", "h3", "h4", "h5", "h6"} ->
                    << Node("Header", sty, cs) @@ [level |-> CHOOSE l \in 1..6 : nm = <<"h1", "h2", "h3", "h4", "h5", "h6">>[l]] >>
               [] nm = "p" -> NE(Node("Block", sty, cs))
               [] nm = "li" -> << Node("ListItem", sty, cs) >>
               [] nm = "sup" -> << Node("Sup", sty, cs) >>
               [] nm = "div" -> NE(Node("Div", sty, cs))
               [] nm = "pre" -> << Node("Block", [sty EXCEPT !.pre = TRUE, !.ws = IF @ = "" THEN "Pre" ELSE @], cs) >>
               [] nm = "br" -> << [kind |-> "Break", sty |-> sty] >>
               [] nm = "table" ->
                    LET bodies == SelectSeq(cs, LAMBDA x : x.kind = "TableBody")
                        \* the section elements are dissolved; their colours go to the rows that set none
                        Down(row, bsty) == [row EXCEPT !.sty = [@ EXCEPT !.fg = IF @ = <<>> THEN bsty.fg ELSE @,
                                                                          !.bg = IF @ = <<>> THEN bsty.bg ELSE @]]
                        rows == Concat([i \in 1..Len(bodies) |-> [j \in 1..Len(bodies[i].c) |-> Down(bodies[i].c[j], StyOf(bodies[i]))]])
                        \* any other child with content (a <caption>) is a block of its own before the table
                        caps == SelectSeq(cs, LAMBDA x : x.kind # "TableBody" /\ ~ShallowEmpty(x))
                        capBlocks == [i \in 1..Len(caps) |-> Node("Block", NoSty, << caps[i] >>)]
                        tab == IF rows = <<>> THEN <<>>
                               ELSE LET rm == Remap(rows) IN << [kind |-> "Table", sty |-> sty, c |-> rm, ncols |-> NumCols(rm)] >>
                    IN IF caps = <<>> THEN tab ELSE << Node("Container", NoSty, capBlocks \o tab) >>
               [] nm \in {"thead", "tbody", "tfoot"} ->
                    NE([kind |-> "TableBody", sty |-> sty, c |-> FixZeroSpans(SelectSeq(cs, LAMBDA x : x.kind = "TableRow"))])
               [] nm = "tr" -> << [kind |-> "TableRow", sty |-> sty, c |-> SelectSeq(cs, LAMBDA x : x.kind = "TableCell")] >>
               [] nm \in {"th", "td"} ->
                    << [kind |-> "TableCell", sty |-> sty, c |-> cs,
                        \* (clamped to 1000 as in HTML; attribute values beyond TLC's integers count as 1000)
                        colspan |-> IF ~HasAttr(n, "colspan") THEN 1
                                    ELSE IF Len(n.a.colspan.c) > 9 /\ Len(n.a.colspan.c) <= 19
                                            /\ \A i \in 1..Len(n.a.colspan.c) : n.a.colspan.c[i][1] \in 48..57 THEN 1000
                                    ELSE Min2(ParseInt(n.a.colspan.c, FALSE, 1), 1000)] >>
               [] nm = "blockquote" -> NE(Node("BlockQuote", sty, cs))
               [] nm = "ul" -> NE(Node("Ul", sty, cs))
               \* stray content directly in <ol> becomes an item of its own, in <dl> it stays where it is;
               \* what is (deep-)empty - white space, markers, line breaks, inline markup around them - is dropped
               [] nm = "ol" -> NE(Node("Ol", sty, LET keep == SelectSeq(cs, LAMBDA x : x.kind = "ListItem" \/ ~DeepEmpty(x)) IN
                                                   [i \in 1..Len(keep) |-> IF keep[i].kind = "ListItem" THEN keep[i]
                                                                            ELSE Node("ListItem", NoSty, << keep[i] >>)])
                                  @@ [start |-> IF HasAttr(n, "start") THEN ParseInt(n.a.start.c, TRUE, 1) ELSE 1])
               [] nm = "dl" -> NE(Node("Dl", sty, SelectSeq(cs, LAMBDA x : x.kind \in {"Dt", "Dd"} \/ ~DeepEmpty(x))))
               [] nm = "dt" -> << Node("Dt", sty, cs) >>
               [] nm = "dd" -> << Node("Dd", sty, cs) >>
               [] OTHER -> NE(Node("Container", sty, cs))
           mark == IF cf.decorate /\ n.h THEN DecoMark(n) ELSE <<>>
           before == IF sty.cset THEN sty.cb ELSE mark
           after == IF sty.cset THEN sty.ca ELSE mark
           \* wrap_nodes: ::before text first child, then ::after text last child
           w1 == IF before # <<>> /\ res # <<>> THEN << InsertChild(TextNode(before), res[1], TRUE) >> ELSE res
           wrapped == IF after # <<>> /\ w1 # <<>> THEN << InsertChild(TextNode(after), w1[1], FALSE) >> ELSE w1
           frag == FragName(n)
       IN IF IsNull(frag) THEN wrapped
          ELSE IF wrapped = <<>> THEN << FragNode(frag.name) >>
          ELSE << InsertChild(FragNode(frag.name), wrapped[1], TRUE) >>

\* the Document node is a Container of the top-level nodes
RenderTreeOf(dom, cf) == Node("Container", NoSty, ToRenderSeq(dom, cf))

(* ---- size estimates ---- *)
TextLen(s) == FoldLeft(LAMBDA a, c : IF IsWs(c) THEN [a EXCEPT !.ws = TRUE]
                                   ELSE [n |-> a.n + CWp(c) + (IF a.ws THEN 1 ELSE 0), ws |-> FALSE],
                       [n |-> 0, ws |-> FALSE], TrimR(TrimL(s))).n
EZ == [size |-> 0, minw |-> 0, pre |-> 0]
E3(s, m) == [size |-> s, minw |-> m, pre |-> 0]
EAdd(a, b) == E3(a.size + b.size, Max2(a.minw, b.minw))
EAddHor(a, b) == E3(a.size + b.size, a.minw + b.minw)
EMax(a, b) == E3(Max2(a.size, b.size), Max2(a.minw, b.minw))
TextEst(s, extra, cf) ==
  LET len == TextLen(s) + (IF s # <<>> /\ IsWs(Head(s)) THEN 1 ELSE 0) + extra
  IN E3(len, Min2(len, Max2(cf.minwrap, 1)))
OlPrefixW(cf, start, n) == Max2(SumW(OlPrefix(cf, start)), SumW(OlPrefix(cf, start + n - 1)))

RECURSIVE Est(_, _)
EstSeq(ns, cf) == FoldLeft(LAMBDA a, n : EAdd(a, Est(n, cf)), EZ, ns)
WithPrefix(e, p) == [EAddHor(e, E3(p, p)) EXCEPT !.pre = p]
\* RenderTable::calc_size_estimate (sum per column, integer division)
TableEst(t, cf) ==
  IF t.ncols = 0 THEN EZ
  ELSE LET cols == FoldLeft(LAMBDA acc, row :
                     FoldLeft(LAMBDA a, cell :
                                LET e == EstSeq(cell.c, cf) IN
                                [colno |-> a.colno + cell.colspan,
                                 v |-> [i \in 1..Len(a.v) |->
                                          \* (the remainder of the division goes to the first columns of the span)
                                          IF i > a.colno /\ i <= a.colno + cell.colspan
                                          THEN LET k == i - a.colno - 1 IN
                                               E3(a.v[i].size + e.size \div cell.colspan + (IF k < e.size % cell.colspan THEN 1 ELSE 0),
                                                  Max2(a.v[i].minw, e.minw \div cell.colspan + (IF k < e.minw % cell.colspan THEN 1 ELSE 0)))
                                          ELSE a.v[i]]],
                              [colno |-> 0, v |-> acc], row.c).v,
                     [i \in 1..t.ncols |-> EZ], t.c)
       IN E3(SumSeq([i \in 1..t.ncols |-> cols[i].size]), SumSeq([i \in 1..t.ncols |-> cols[i].minw]) + t.ncols - 1)
Est(n, cf) ==
  CASE n.kind = "Text" -> TextEst(n.s, 0, cf)
    [] n.kind = "Img" -> TextEst(n.alt, 2, cf)
    [] n.kind = "FragStart" -> EZ
    [] n.kind = "Break" -> E3(1, 1)
    [] n.kind = "Link" -> EAdd(EstSeq(n.c, cf), E3(5, 5))
    [] n.kind = "Dd" -> WithPrefix(EstSeq(n.c, cf), 2)
    [] n.kind = "BlockQuote" -> WithPrefix(EstSeq(n.c, cf), SumW(cf.ds.quote))
    [] n.kind = "Ul" -> WithPrefix(EstSeq(n.c, cf), SumW(cf.ds.ul))
    [] n.kind = "Ol" -> WithPrefix(EstSeq(n.c, cf), OlPrefixW(cf, n.start, Len(n.c)))
    [] n.kind = "Header" -> WithPrefix(EstSeq(n.c, cf), SumW(cf.ds.hdr[n.level]))
    [] n.kind = "Table" -> TableEst(n, cf)
    [] OTHER -> EstSeq(n.c, cf)
=============================================================================
