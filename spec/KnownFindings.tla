--------------------------- MODULE KnownFindings ---------------------------
(* Narrow class predicates for recorded, unrepaired defects (known_findings.json).  They are used
   only to attribute randomly generated instances of a *listed* defect; a failing case outside every
   listed class is reported as a VIOLATION.  Ideally empty. *)
EXTENDS Render, Props

ModelAgrees(c, run) ==
  LET m == RenderDoc(c.doms[run.d], run.cfg, run.w) IN
  m.k = run.res.k /\ (m.k = "ok" => m.lines = run.res.lines)

\* C12 "pre-cont-tag": on a force-wrapped <pre> line, characters typed before the overflow was detected
\* (and text that follows a flushed word) keep the Preformat(false) tag although they are laid out on a
\* continuation piece.  Class: everything else about the block is right, only the strict continuation
\* clause fails, and it fails exactly as the recorded algorithm (Wrap!AddChar's tag bookkeeping) predicts.
KF_C12(c) ==
  IF \A i \in 1..Len(c.runs) :
       LET run == c.runs[i] IN
       IsOk(run) => LET p == C12Parts(c, run) IN p.core /\ p.tagsWeak /\ (p.tagsStrict \/ ModelAgrees(c, run))
  THEN "pre-cont-tag" ELSE ""

KFClass(prop, c) ==
  CASE prop = "C12" -> KF_C12(c)
    [] OTHER -> ""
=============================================================================
