--------------------------- MODULE KnownFindings ---------------------------
(* Narrow class predicates for recorded, unrepaired defects (known_findings.json).  They are used
   only to attribute randomly generated instances of a *listed* defect; a failing case outside every
   listed class is reported as a VIOLATION.  Ideally empty. *)
EXTENDS Dom, Api
KFClass(prop, c) == ""
=============================================================================
