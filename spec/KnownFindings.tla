--------------------------- MODULE KnownFindings ---------------------------
(* Narrow class predicates for recorded, unrepaired defects (known_findings.json).  They are used
   only to attribute randomly generated instances of a *listed* defect; a failing case outside every
   listed class is reported as a VIOLATION.  Ideally empty. *)
EXTENDS Props

\* the specification's own rendering equals the observed result (items with tags on the rich lines
\* route, plain cells otherwise)
ModelAgrees(c, run) ==
  LET dom == IF "css" \in DOMAIN c.meta THEN Styled(c.doms[run.d], CssOf(c, run)) ELSE c.doms[run.d]
      m == RenderDoc(dom, run.cfg, run.w)
      rich == run.route \in {"lines", "staged_lines", "restaged_lines"} /\ run.cfg.deco = "rich" IN
  /\ run.w >= 0
  /\ m.k = run.res.k
  /\ m.k = "ok" =>
       IF rich THEN m.lines = run.res.lines
       ELSE [i \in 1..Len(m.lines) |-> Plain(NoFrags(m.lines[i]))] = [i \in 1..Len(run.res.lines) |-> Plain(NoFrags(run.res.lines[i]))]

\* C12 "pre-cont-tag": on a force-wrapped <pre> line, characters typed before the overflow was detected
\* (and text that follows a flushed word) keep the Preformat(false) tag although they are laid out on a
\* continuation piece.  Class: everything else about the block is right, only the strict continuation
\* clause fails, and it fails exactly as the recorded algorithm (Wrap!AddChar's tag bookkeeping) predicts.
KF_C12(c) ==
  IF \A i \in 1..Len(c.runs) :
       LET run == c.runs[i] IN
       IsOk(run) => LET p == C12Parts(c, run) IN p.core /\ p.tagsWeak /\ (p.tagsStrict \/ ModelAgrees(c, run))
  THEN "pre-cont-tag" ELSE ""

\* C13 "estimate-per-text-node": size estimates are computed per text node, so a comment (or a span
\* boundary) that splits a text run changes min_width and with it the TooNarrow boundary of an
\* enclosing prefixed block.  Class: the two results differ only in kind (one Ok, one TooNarrow),
\* and both are exactly what the recorded algorithm (Tree!Est, Render!WidthMinus) predicts.
\* C13 "empty-block-glues-text": an element that is pruned because it has no content leaves no trace, not even
\* the line break a block makes: `x<div></div>y` renders "xy".  White space written between two such blocks, or
\* next to one, is then the only thing that separates the words (`x<div></div> y` renders "x y"), so the
\* rewrite changes the output.  Class: both results Ok and equal up to white space and line breaks, the document
\* has a block-level element without visible content, and both results are exactly what the specification
\* (which prunes like the code) predicts.
BlockNames == {"div", "p", "blockquote", "ul", "ol", "dl", "dt", "dd", "table", "h1", "h2", "h3", "h4", "h5", "h6",
               "section", "article", "center", "header", "footer", "main", "aside", "nav", "pre", "li"}
HasEmptyBlock(dom) == LET ns == NodesSeq(dom) IN
                      \E i \in 1..Len(ns) : ns[i].k = "e" /\ ns[i].h /\ ns[i].n \in BlockNames /\ NonWs(FlowText(ns[i])) = <<>>
AllNonSpace(res) == Concat([i \in 1..Len(res.lines) |-> NonSpaceCodes(Plain(NoFrags(res.lines[i])))])
KF_C13(c) ==
  IF /\ Len(c.runs) = 2
     /\ {c.runs[1].res.k, c.runs[2].res.k} = {"ok", "narrow"}
     /\ ModelAgrees(c, c.runs[1]) /\ ModelAgrees(c, c.runs[2])
  THEN "estimate-per-text-node"
  ELSE IF /\ Len(c.runs) = 2
          /\ c.runs[1].res.k = "ok" /\ c.runs[2].res.k = "ok"
          /\ AllNonSpace(c.runs[1].res) = AllNonSpace(c.runs[2].res)
          /\ HasEmptyBlock(Dom1(c, c.runs[1]))
          /\ ModelAgrees(c, c.runs[1]) /\ ModelAgrees(c, c.runs[2])
  THEN "empty-block-glues-text" ELSE ""

\* C15 "pad-blank-line": with pad_block_width a blank line inside <pre> is padded with spaces, counts
\* as content for start_block, and the next block is preceded by one more empty line than without
\* padding.  Class: option = pad, both runs Ok, equal after dropping the lines that hold no text
\* (blank lines, possibly behind a block prefix), both as predicted.
KF_C15(c) ==
  IF /\ "opt" \in DOMAIN c.meta /\ c.meta.opt = "pad"
     /\ c.runs[1].res.k = "ok" /\ c.runs[2].res.k = "ok"
     /\ LET nb(res) == SelectSeq([i \in 1..Len(res.lines) |-> RStripCodes(LineCodes(res)[i])],
                                  LAMBDA x : \E j \in 1..Len(x) : IsLetterCode(x[j]))      \* lines that hold text
        IN nb(c.runs[1].res) = nb(c.runs[2].res)
     /\ ModelAgrees(c, c.runs[1]) /\ ModelAgrees(c, c.runs[2])
  THEN "pad-blank-line" ELSE ""

\* C08 "decorated-empty-link": with do_decorate() (config::plain()), the "*" / "**" / "`" pseudo-content
\* of an *empty* em / strong / code / dt inside a link counts as link text, so a link without any
\* content of its own is still rendered ("[**][1]") and footnoted.  Class: some textless a[href] of
\* the document contains such an element, decoration is on, and the output is what the recorded
\* algorithm (Tree!ToRender wrap_nodes + DeepEmpty) predicts.
KF_C08(c) ==
  IF \A i \in 1..Len(c.runs) :
       LET run == c.runs[i] IN
       DecoratedEmptyLink(Dom1(c, run), Cf(run.cfg)) /\ ModelAgrees(c, run)
  THEN "decorated-empty-link" ELSE ""

\* C05 / C06 "colspan-over-empty-column": a column that is empty in every row gets width 0 and its
\* separator is not drawn, but a cell spanning it together with a non-empty column still counts one
\* separator per spanned column (into_cells: sum + colspan - 1), so that row is one column wider than
\* the others: ragged lines, bars out of line.  (The only correct repair changes the output pinned
\* by test_colspan_large, see DESIGN.md.)  Class: the top-level table, laid out by the specification
\* at the render width, has such a cell, and the output is exactly what the specification predicts.
RECURSIVE FirstTable(_)
FirstTableSeq(ns) == FoldLeft(LAMBDA a, n : IF IsNull(a) THEN FirstTable(n) ELSE a, Null, ns)
FirstTable(n) == IF n.kind = "Table" THEN n
                 ELSE IF "c" \in DOMAIN n /\ n.kind \notin {"TableRow", "TableCell"} THEN FirstTableSeq(n.c) ELSE Null
SpansEmptyColumn(c, run) ==
  LET cf == Cf(run.cfg)
      t == FirstTable(RenderTreeOf(c.doms[run.d], cf)) IN
  ~IsNull(t) /\
  LET lay == TableLayout(t, run.w, cf) IN
  ~lay.vert /\
  \E i \in 1..Len(t.c) :
     LET row == t.c[i]
         starts == [j \in 1..Len(row.c) |-> SumSeq([q \in 1..(j - 1) |-> row.c[q].colspan])] IN
     \E j \in 1..Len(row.c) :
        /\ row.c[j].colspan >= 2
        /\ \E q \in (starts[j] + 1)..(starts[j] + row.c[j].colspan) : lay.cw[q] = 0
        /\ \E q \in (starts[j] + 1)..(starts[j] + row.c[j].colspan) : lay.cw[q] > 0
\* C05 "blank-cell-column": the size estimate of a text node counts one column for leading white space even when
\* nothing follows it, so a cell holding white space only (pretty-printed markup) gets a column of width 1
\* although it renders nothing.  A table of such cells alone draws its top rule and no row; nested in a cell
\* of another table that rule makes a row of height 0 (two rules back to back).  The suite pins the width-1
\* column (test_issue_54_oob, test_nested_table_1), so it is recorded.  Class: the document has a td / th
\* whose text is white space only, and the output is exactly what the specification predicts.
HasBlankCell(dom) == LET ns == NodesSeq(dom) IN
                     \E i \in 1..Len(ns) : ns[i].k = "e" /\ ns[i].h /\ ns[i].n \in {"td", "th"}
                                             /\ FlowText(ns[i]) # <<>> /\ NonWs(FlowText(ns[i])) = <<>>
KF_Table(c) ==
  IF \A i \in 1..Len(c.runs) : SpansEmptyColumn(c, c.runs[i]) /\ ModelAgrees(c, c.runs[i])
  THEN "colspan-over-empty-column"
  ELSE IF \A i \in 1..Len(c.runs) : HasBlankCell(Dom1(c, c.runs[i])) /\ ModelAgrees(c, c.runs[i])
  THEN "blank-cell-column" ELSE ""

\* not a finding: C18's generator-side deletion must be the reference deletion (tool sanity)
KF_C18(c) == IF C18Sane(c) THEN "" ELSE "generator-mismatch"

\* C03 "zero-width-only-cell": a table column whose every cell has display width 0 is not laid out at all
\* (RenderTableRow::into_cells skips cells without width), so a cell whose whole text is a lone combining
\* mark, a zero-width space or a zero-width joiner is dropped with its text.  Class: the document has a
\* table, the only thing wrong is that characters without width are missing (with them left out of both
\* sides the property holds), and the output is exactly what the recorded algorithm predicts.
ZeroWidthCodes == {769, 8203, 8205}
DropZW(s) == SelectSeq(s, LAMBDA k : k \notin ZeroWidthCodes)
KF_C03(c) ==
  IF \A i \in 1..Len(c.runs) :
       LET run == c.runs[i] IN
       IsOk(run) => \/ P_C03_run(c, run)
                    \/ /\ HasTable(Dom1(c, run))
                       /\ P_C03_gen(c, run, DropZW)
                       /\ ModelAgrees(c, run)
  THEN "zero-width-only-cell" ELSE ""

\* C02 "emoji-presentation-sequence": text is laid out character by character (UnicodeWidthChar), so an emoji
\* followed by U+FE0F counts 1 + 0 columns, while the line measured as a string (UnicodeWidthStr, the way a
\* terminal that honours the variation selector shows it) counts 2: such a line can be up to one column per
\* sequence wider than the width asked for.  Class: by its characters every line fits, every line that is too
\* wide as a string holds U+FE0F, and the output is exactly what the specification (which counts characters)
\* predicts.
KF_C02(c) ==
  IF \A i \in 1..Len(c.runs) :
       LET run == c.runs[i] IN
       \/ P_C02_run(run)
       \/ /\ \A j \in 1..Len(run.res.lines) :
                /\ LineW(run.res.lines[j]) <= run.w
                /\ run.res.sw[j] > run.w => \E q \in 1..Len(run.res.lines[j]) : run.res.lines[j][q][1] = 65039
          /\ ModelAgrees(c, run)
  THEN "emoji-presentation-sequence" ELSE ""

\* the same defect seen through C11's bound on the lines of an overflowing rendering.  Class: everything C11 asks
\* holds, by character widths every line is within the bound, and only lines that hold U+FE0F exceed it as
\* strings (the symptom is specific enough; the model is not consulted: C11's documents include list starts
\* beyond TLC's integers)
KF_C11(c) == IF P_C11x(c, FALSE) THEN "emoji-presentation-sequence" ELSE ""

\* C12's "pre-cont-tag" seen through C09's clause on the continuation flag (same class: only the strict
\* clause fails, exactly as the recorded algorithm predicts)
KF_C09(c) ==
  IF "pw" \in DOMAIN c.meta /\ \A i \in 1..Len(c.runs) :
       LET run == c.runs[i] IN
       IsOk(run) => LET p == C12Parts(c, run) IN p.tagsWeak /\ (p.tagsStrict \/ ModelAgrees(c, run))
  THEN "pre-cont-tag" ELSE ""

KFClass(prop, c) ==
  CASE prop = "C12" -> KF_C12(c)
    [] prop = "C18" -> KF_C18(c)
    [] prop = "C03" -> KF_C03(c)
    [] prop = "C02" -> KF_C02(c)
    [] prop = "C09" -> KF_C09(c)
    [] prop = "C11" -> KF_C11(c)
    [] prop \in {"C05", "C06"} -> KF_Table(c)
    [] prop = "C08" -> KF_C08(c)
    [] prop = "C15" -> KF_C15(c)
    [] prop = "C13" -> KF_C13(c)
    [] OTHER -> ""
=============================================================================
