------------------------------- MODULE Cells -------------------------------
(* Characters are cells <<code, width>> (plain) or items <<code, width, tags>> (rich route);
   a fragment marker is the item <<-1, 0, << <<"F", name>> >> >>.  `code` is the Unicode scalar
   value, `width` its unicode-width column count as measured by the harness (-1 = "no width":
   control characters, which the renderer drops). *)
EXTENDS Naturals, Integers, Sequences, FiniteSets, TLC, SequencesExt, Functions, Folds

Min2(a, b) == IF a < b THEN a ELSE b
Max2(a, b) == IF a > b THEN a ELSE b
Rep(c, n) == [i \in 1..n |-> c]
SumSeq(s) == FoldLeft(LAMBDA a, b : a + b, 0, s)
Concat(ss) == FoldLeft(LAMBDA a, b : a \o b, <<>>, ss)
IsPrefixOf(p, s) == Len(p) <= Len(s) /\ SubSeq(s, 1, Len(p)) = p

NL == 10
TAB == 9
\* char::is_whitespace (Unicode White_Space)
WsCodes == {9, 10, 11, 12, 13, 32, 133, 160, 5760, 8232, 8233, 8239, 8287, 12288} \cup (8192..8202)
IsWsCode(k) == k \in WsCodes
IsWs(c) == c[1] \in WsCodes
IsFrag(x) == x[1] = -1
CW(c) == c[2]
CWp(c) == IF c[2] > 0 THEN c[2] ELSE 0
SumW(s) == FoldLeft(LAMBDA a, c : a + CWp(c), 0, s)
Codes(s) == [i \in 1..Len(s) |-> s[i][1]]
C2(code) == <<code, 1>>
Plain(items) == [i \in 1..Len(items) |-> <<items[i][1], items[i][2]>>]
NoFrags(items) == SelectSeq(items, LAMBDA x : ~IsFrag(x))
HasStr(s) == \E i \in 1..Len(s) : ~IsFrag(s[i])        \* !TaggedLine::is_empty()
AllWs(s) == \A i \in 1..Len(s) : IsWs(s[i])

\* box drawing and the stacked-row rule character
GS == 9472   \* ─
GA == 9524   \* ┴
GB == 9516   \* ┬
GX == 9532   \* ┼
GV == 47     \* /
BAR == 9474  \* │
RuleCodes == {GS, GA, GB, GX}
IsBoxCode(k) == k \in 9472..9599
STRIKE == 822

\* "letters": what generated document text is made of and markup never is
IsLetterCode(k) == \/ k \in 97..122
                   \/ (k >= 768 /\ k # STRIKE /\ ~IsWsCode(k) /\ ~IsBoxCode(k) /\ k \notin 8304..8351)
Letters(cells) == SelectSeq(Codes(cells), IsLetterCode)
NonWs(cells) == SelectSeq(Codes(cells), LAMBDA k : ~IsWsCode(k))

RECURSIVE TrimL(_)
TrimL(s) == IF s # <<>> /\ IsWs(Head(s)) THEN TrimL(Tail(s)) ELSE s
TrimR(s) == Reverse(TrimL(Reverse(s)))
RStripSp(s) == LET idx == {i \in 1..Len(s) : s[i][1] # 32} IN
               IF idx = {} THEN <<>> ELSE SubSeq(s, 1, CHOOSE m \in idx : \A j \in idx : j <= m)

\* bag of a sequence of codes as a function code -> count
BagOf(s) == LET D == {s[i] : i \in 1..Len(s)} IN [k \in D |-> Cardinality({i \in 1..Len(s) : s[i] = k})]
IsSubseq(p, s) ==   \* p is a (not necessarily contiguous) subsequence of s
  FoldLeft(LAMBDA j, x : IF j <= Len(p) /\ p[j] = x THEN j + 1 ELSE j, 1, s) = Len(p) + 1
=============================================================================
