#!/usr/bin/env python3
"""Regenerate MANIFEST.json from the plan table (keeps it valid at all times)."""
import json, os, sys
sys.path.insert(0, os.path.dirname(os.path.abspath(__file__)))
import plans
ROOT = os.path.dirname(os.path.dirname(os.path.abspath(__file__)))
TITLES = {}
for l in open(os.path.join(ROOT, 'properties.jsonl')):
    p = json.loads(l); TITLES[p['id']] = p['title']
TECH = {
 'default': 'explicit TLA+ specification (spec/*.tla): bounded model checking with TLC + replay of TLC-generated behaviours on the real library + TLC trace validation of recorded executions against the property predicate in spec/Props.tla',
}
claimed = sorted(plans.PLANS.keys())
checks = []
for pid in claimed:
    plan = plans.PLANS[pid]
    mcs = ', '.join(m['cfg']['quick'].replace('_quick.cfg', '') for m in plan.get('mc', [])) or 'none yet'
    checks.append({
        'property_id': pid,
        'quick_cmd': 'bin/check %s --tier quick' % pid,
        'thorough_cmd': 'bin/check %s --tier thorough' % pid,
        'evidence_file': 'evidence/%s.json' % pid,
        'replay_cmd_template': 'bin/check %s --replay {path}' % pid,
        'engine': 'tlc',
        'level_claimed': {
            'category': 'model_checking',
            'text': plan.get('level_text', 'P_%s (spec/Props.tla) is evaluated by TLC on every recorded execution of the real library (trace validation) and, as an invariant, on the bounded model (%s); behaviours emitted by TLC are replayed on the real API and compared with the model\'s prediction; a sample of random executions is replayed through the full renderer specification, and a sample of hook traces (one event per do_render_node call) is validated step by step against the step machine (spec/trace/TraceSteps.tla); both report drift, not verdicts.' % (pid, mcs)),
            'design_ref': 'DESIGN.md section 7 (%s)' % pid},
        'level_note': 'trusted: TLC/SANY + CommunityModules Json/IOUtils, html5ever tokenizer/tree builder, unicode-width, the harness abstraction (cells, own TreeSink DOM); exhaustive only within the stated MC bounds, random beyond them',
        'technique': plan.get('technique', TECH['default']),
    })
na = [{'property_id': 'C%02d' % i, 'reason': 'check still under construction in this round; to be claimed once built (see DESIGN.md section 12)'} for i in range(1, 21) if 'C%02d' % i not in claimed]
m = {
    'version': 1,
    'setup_cmd': 'bin/setup',
    'hooks': {'guard': 'html2text_verif',
              'enable': 'harness/.cargo/config.toml passes --cfg html2text_verif (with --check-cfg) to rustc, which also applies to the path dependency /repo',
              'baseline_off_cmd': 'cd /repo && cargo test --workspace --no-fail-fast --offline',
              'source_commits': ['2b3f83258c694a3ff65a4a1b272a06b039ceb0ce', 'a716d5b5dadd5a68cbe5dedb8a920d873ef95596', 'ac25f06d629036c492085a1637aa2ead0ff77c69'], 'add_only': True,
              'what': 'one event per do_render_node call (node kind + 17 scalars of the renderer state + the size estimate of the node), recorded only while html2text::verif::start() is active; validated by spec/trace/TraceSteps.tla'},
    'engines': [{'name': 'tlc', 'path': 'spec/', 'serves_properties': claimed,
                 'kind_free_text': 'explicit TLA+ specification of html2text (Wrap, Tree, Render step machine, Css, CssSyntax, Api, Props) checked with TLC: bounded MC configs in spec/mc, trace specs in spec/trace (TraceProps, TraceModel, TraceSteps); Rust harness h2tv generates/concretises/executes/abstracts'},
                {'name': 'apalache', 'path': 'spec/apalache/', 'serves_properties': ['C01'],
                 'kind_free_text': 'supplementary, never a verdict: inductive invariant of the column shrink loop for unbounded widths (bin/apalache_shrink; run with thorough C01 and recorded in its evidence)'}],
    'checks': checks,
    'notes': 'See DESIGN.md. known_findings.json lists recorded findings and fixed defects. seeded/ holds 141 changes to the library that the checks report (bin/selftest re-runs them on scratch worktrees).',
    'not_applicable': na,
}
json.dump(m, open(os.path.join(ROOT, 'MANIFEST.json'), 'w'), indent=1)
print('claimed', claimed)
