#!/usr/bin/env python3
"""debug aid for C09: expected vs observed (letter, tags) sequence"""
import json, sys
WS={9,10,11,12,13,32,133,160,5760,8232,8233,8239,8287,12288}|set(range(8192,8203))
def isl(k): return 97<=k<=122 or (k>=768 and k!=822 and k not in WS and not (9472<=k<=9599) and not (8304<=k<=8351))
IGN=('head','script','style','link','meta','hr')
def annof(n):
    if not n['h']: return []
    nm=n['n']
    if nm in ('em','i','ins','dt'): return [['E']]
    if nm=='strong': return [['S']]
    if nm in ('s','del'): return [['K']]
    if nm=='code': return [['C']]
    if nm=='a' and 'href' in n['a']: return [['L',n['a']['href']['s']]]
    if nm=='sup': return [['D']]
    return []
def exp(ns,anc,pre,out):
    for n in ns:
        if n['k']=='t':
            out += [(c[0],anc,pre) for c in n['s'] if isl(c[0])]
        elif n['k']=='e' and not (n['h'] and n['n'] in IGN):
            if n['h'] and n['n']=='img':
                if n['a'].get('alt') and n['a'].get('src'): out += [(c[0],anc+[['I',n['a']['src']]],pre) for c in n['a']['alt'] if isl(c[0])]
            else: exp(n['c'],anc+annof(n),pre or (n['h'] and n['n']=='pre'),out)
recs=[json.loads(l) for l in open(sys.argv[1])]
cases=[json.loads(l) for l in open(sys.argv[2])]
for i in map(int,sys.argv[3:]):
    r=recs[i-1]; a=r['runs'][0]
    e=[]; exp(r['doms'][a['d']-1],[],False,e)
    o=[(x[0],[t for t in x[2] if t[0]!='P'],any(t[0]=='P' for t in x[2])) for ln in a['res']['lines'] for x in ln if x[0]>=0 and isl(x[0])]
    print('==',i,'w',a['w'],a['cfg']['ops'],a['res']['k'],'len',len(e),len(o), 'r1/r2 kinds', a['res']['k'], r['runs'][1]['res']['k'])
    for k,(x,y) in enumerate(zip(e,o)):
        if x!=y: print('  first diff at',k,'exp',chr(x[0]),x[1:],'obs',chr(y[0]),y[1:]); break
    print('  html',cases[i-1]['runs'][0]['html'][:900])
