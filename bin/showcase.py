#!/usr/bin/env python3
"""showcase.py <trace.ndjson> <cases.ndjson> idx... : print html/cfg/width/output of recorded cases (1-based)."""
import json, sys
def cells_str(line):
    return ''.join(chr(c[0]) for c in line if c[0] >= 0)
def show(rec, case=None):
    print('== id', rec['id'])
    for k, run in enumerate(rec['runs']):
        print(' run', k + 1, 'w=', run['w'], 'deco=', run['cfg']['deco'], 'ops=', run['cfg']['ops'], 'route=', run['route'], '->', run['res']['k'], run['res'].get('msg', ''))
        if case: print('  html:', case['runs'][k].get('html', case['runs'][k].get('hx'))[:3000])
        for i, ln in enumerate(run['res']['lines']):
            print('  %3d|%s|' % (run['res']['sw'][i], cells_str(ln)))
if __name__ == '__main__':
    tr = [json.loads(l) for l in open(sys.argv[1])]
    cs = [json.loads(l) for l in open(sys.argv[2])] if sys.argv[2] != '-' else None
    byid = {c['id']: c for c in cs} if cs else {}
    for a in sys.argv[3:]:
        r = tr[int(a) - 1]
        show(r, byid.get(r['id']))
