#!/usr/bin/env python3
"""dbg_model.py <trace> <idx> : model rendering vs observed for one case (debug aid)"""
import sys, json, re; sys.path.insert(0,'/verif/bin')
import vlib
import os
trace, idx = os.path.abspath(sys.argv[1]), sys.argv[2]
rc,out=vlib.run_tlc('/verif/spec/trace','DebugModel','DebugModel.cfg',env={'TRACE':trace,'IDX':idx})
m=re.search(r'<<"MODEL", "(.*)">>', out, re.S)
if not m: print(out[-3000:]); sys.exit(1)
js=m.group(1).replace('\n','')
js=bytes(js,'utf-8').decode('unicode_escape') if '\\"' in js else js
model=json.loads(js)
rec=[json.loads(l) for l in open(trace)][int(idx)-1]
for k,(mo,run) in enumerate(zip(model,rec['runs'])):
    print('run',k+1,'w',run['w'],run['cfg']['deco'],run['cfg']['ops'],run['route'],'model',mo['k'],mo.get('why'),'obs',run['res']['k'])
    ml=[''.join(chr(c[0]) for c in ln if c[0]>=0) for ln in mo['lines']]
    ol=[vlib.cells_str(ln) for ln in run['res']['lines']]
    for i in range(max(len(ml),len(ol))):
        a=ml[i] if i<len(ml) else '<none>'; b=ol[i] if i<len(ol) else '<none>'
        print(' %s |%s|   |%s|'%('  ' if a==b else '!!',a,b))
    if ml==ol and mo['k']=='ok':
        for i,(a,b) in enumerate(zip(mo['lines'],run['res']['lines'])):
            if a!=b: print('tagdiff line',i, json.dumps(a)[:600]); print('           obs ', json.dumps(b)[:600])
