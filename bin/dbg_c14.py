#!/usr/bin/env python3
"""debug aid for C14: ids of the DOM vs markers of the output"""
import json, sys
WS={9,10,11,12,13,32,133,160,5760,8232,8233,8239,8287,12288}|set(range(8192,8203))
def isl(k): return 97<=k<=122 or (k>=768 and k!=822 and k not in WS and not (9472<=k<=9599) and not (8304<=k<=8351))
IGN=('head','script','style','link','meta','hr')
def flow(n):
    if n['k']=='t': return [c[0] for c in n['s']]
    if n['k']!='e': return []
    if n['h'] and n['n'] in IGN: return []
    if n['h'] and n['n']=='img':
        a=n['a']; return [c[0] for c in a['alt']] if a.get('alt') and a.get('src') else []
    return [x for c in n['c'] for x in flow(c)]
def ids(ns,before,out):
    for n in ns:
        if n['k']=='t': before+=sum(1 for c in n['s'] if isl(c[0])); continue
        if n['k']!='e': continue
        fr=None
        for a in n['ao']:
            if a=='id' or (a=='name' and n['n']=='a'): fr=n['a'][a]; break
        b0=before
        if n['h'] and n['n'] in IGN: pass
        elif n['h'] and n['n']=='img': before+=sum(1 for k in flow(n) if isl(k))
        else: before=ids(n['c'],before,out)
        if fr is not None: out.append((fr,b0,any(k not in WS for k in flow(n)),n['n']))
    return before
recs=[json.loads(l) for l in open(sys.argv[1])]
cases=[json.loads(l) for l in open(sys.argv[2])]
for i in map(int,sys.argv[3:]):
    r=recs[i-1]; a=r['runs'][0]
    out=[]; ids(r['doms'][a['d']-1],0,out)
    ms=[]; n=0
    for ln in a['res']['lines']:
        for x in ln:
            if x[0]==-1: ms.append((x[2][0][1],n))
            elif isl(x[0]): n+=1
    print('==',i,'w',a['w'],a['res']['k'], 'r2/r3 same:', r['runs'][1]['res']==r['runs'][2]['res'])
    print('  ids',sorted(out,key=lambda t:t[1])); print('  markers',ms)
    print('  html',cases[i-1]['runs'][0]['html'][:1200])
    for ln in a['res']['lines'][:40]: print('   |'+''.join(chr(c[0]) if c[0]>=0 else '«%s»'%c[2][0][1] for c in ln)+'|')
