#!/usr/bin/env python3
"""steps_extract.py <trace> <out> [max] : one single-run record per recorded run that carries step
events (hook events of the library, cfg html2text_verif).  Random-family cases first (3/4 of the
sample), then behaviours emitted by the model-checking configurations and canonical inputs."""
import json, sys


def records(trace, want_mc, max_len):
    for l in open(trace):
        if '"steps"' not in l or len(l) > max_len or '"nomodel"' in l:
            continue
        r = json.loads(l)
        # (numbers beyond TLC's 32-bit integers cannot be represented in the specification)
        if str(r.get('id', '')).startswith('canon:ol-start-overflow'):
            continue
        is_mc = str(r.get('id', '')).startswith(('mc:', 'canon:'))
        if is_mc != want_mc:
            continue
        for run in r.get('runs', []):
            if 'steps' in run and isinstance(run.get('w'), int) and run['w'] >= 0:
                d = r['doms'][run['d'] - 1]
                if len(d) == 1 and d[0].get('k') in ('big', 'none'):
                    continue
                yield {'id': r['id'], 'meta': r.get('meta') or {'_': 0}, 'doms': [d], 'runs': [dict(run, d=1)]}


def extract(trace, outp, maxn=10**9, max_len=60000):
    n = ev = 0
    with open(outp, 'w') as out:
        for want_mc, quota in ((False, maxn - maxn // 4), (True, maxn)):
            for rec in records(trace, want_mc, max_len):
                if n >= quota:
                    break
                out.write(json.dumps(rec) + '\n')
                n += 1
                ev += len(rec['runs'][0]['steps'])
    return n, ev


if __name__ == '__main__':
    print(extract(sys.argv[1], sys.argv[2], int(sys.argv[3]) if len(sys.argv) > 3 else 10**9))
