#!/usr/bin/env python3
"""mcdbg.py <module> <cfg> [workers] : run one model-checking configuration, print TLC's output without the BEH lines (debug aid)"""
import sys; sys.path.insert(0, '/verif/bin')
import vlib, time
t = time.time()
rc, out = vlib.run_tlc('/verif/spec/mc', sys.argv[1], sys.argv[2], workers=int(sys.argv[3]) if len(sys.argv) > 3 else 8, heap='8g', jit='full')
lines = [l for l in out.split('\n') if not l.startswith('<<"BEH"')]
print('\n'.join(lines[-60:]))
print('rc', rc, 'BEH lines', out.count('<<"BEH"'), 'wall %.1fs' % (time.time() - t))
