#!/usr/bin/env python3
"""dbg_colours.py <violation.json> : observed vs expected colour stream of a C19/C20 case (debug aid)"""
import sys, json, re, os; sys.path.insert(0, os.path.dirname(os.path.abspath(__file__)))
import vlib
d = json.load(open(sys.argv[1])); tp = os.path.join(vlib.WORK, 'dbgc.trace')
open(tp, 'w').write(json.dumps(d['observed']) + '\n')
rc, out = vlib.run_tlc(os.path.join(vlib.SPEC, 'trace'), 'DebugColours', 'DebugColours.cfg', env={'TRACE': tp})
m = re.search(r'<<\s*"OBS".*?\n(?=Model checking|Finished)', out, re.S)
txt = re.sub(r'\s+', ' ', m.group(0)) if m else out[-2000:]
def dec(mm): return ''.join(chr(int(x)) for x in re.findall(r'\d+', mm.group(1)))
txt = re.sub(r'(?<="OBS", )<<([\d, ]*)>>', lambda mm: '"' + dec(mm) + '"', txt); txt = re.sub(r'(?<="EXP", )<<([\d, ]*)>>', lambda mm: '"' + dec(mm) + '"', txt)
print(txt[:3000])
