#!/bin/bash
# try_mutant_wt.sh <name> <worktree> <property...> : as try_mutant.sh, but without touching /repo: the seeded change is
# re-based onto /repo's HEAD inside its own worktree, and the checks run from a scratch copy of /verif whose harness
# depends on that worktree.  (Used while a long run is reading /repo; bin/selftest is the run on /repo itself.)
set -u
name=$1; wt=$2; shift 2
out=/verif/seeded/$name; mkdir -p $out
cd $wt || exit 2
cp patch.diff $out/patch.diff
demo=$(ls tests/demo_*.rs 2>/dev/null | head -1)
[ -n "$demo" ] && cp $demo $out/
cp meta.json $out/agent_meta.json 2>/dev/null
dname=$(basename $demo .rs)
feat=""; grep -q "use_doc_css\|add_css\|add_agent_css" $demo && feat="--features css"
git checkout -q -- src
git checkout -q --detach $(git -C /repo rev-parse HEAD) || { echo "cannot move worktree to /repo HEAD"; exit 2; }
r_clean=$(cargo test --offline $feat --test $dname 2>&1 | grep "test result" | tail -1)
git apply patch.diff || { echo "patch does not apply at /repo HEAD"; exit 3; }
r_mut=$(cargo test --offline $feat --test $dname 2>&1 | grep "test result" | tail -1)
r_lib=$(cargo test --offline --lib 2>&1 | grep "test result" | tail -1)
r_css=$(cargo test --offline --features css --lib 2>&1 | grep "test result" | tail -1)
echo "demo clean : $r_clean"; echo "demo mutant: $r_mut"; echo "suite      : $r_lib"; echo "suite css  : $r_css"
vc=/tmp/vm_$name; rm -rf $vc; mkdir -p $vc
rsync -a --exclude work --exclude .git --exclude evidence --exclude seeded /verif/ $vc/; ln -s /verif/work/mc_cache $vc/work_mc_cache_link 2>/dev/null
sed -i "s#path = \"/repo\"#path = \"$wt\"#" $vc/harness/Cargo.toml
mkdir -p $vc/work $vc/evidence; rm -f $vc/work_mc_cache_link; [ -d /verif/work/mc_cache ] && ln -s /verif/work/mc_cache $vc/work/mc_cache
res=""
for p in "$@"; do
  (cd $vc && bin/check $p --tier quick > $vc/mut_$p.log 2>&1); rc=$?
  nv=$(grep -c "^VIOLATION" $vc/mut_$p.log)
  echo "check $p: exit $rc, $nv VIOLATION line(s)"; grep "TOOL ERROR" $vc/mut_$p.log | head -2
  res="$res $p:rc=$rc:viol=$nv"
  mkdir -p $out/replays; for f in $(grep "^VIOLATION" $vc/mut_$p.log | head -2 | sed 's/.*replay=//'); do cp $vc/$f $out/replays/ 2>/dev/null; done
done
rm -rf $vc
python3 - "$out" "$name" "$r_clean" "$r_mut" "$r_lib" "$r_css" "$res" <<'PY'
import json,sys,os
out,name,rc,rm,rl,rcss,res=sys.argv[1:8]
am={}
try: am=json.load(open(os.path.join(out,'agent_meta.json')))
except Exception: pass
meta={'id':name,'property':am.get('property'),'summary':am.get('summary'),'needs':am.get('needs'),
 'confirmed':{'demo_on_clean_tree':rc,'demo_with_change':rm,'suite_with_change':rl,'suite_css_with_change':rcss},
 'checks_run':res.split()}
json.dump(meta,open(os.path.join(out,'meta.json'),'w'),indent=1)
PY
