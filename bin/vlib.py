#!/usr/bin/env python3
"""Driver library: build harness, run generators / executions, run TLC (model checking and trace
validation), classify verdicts, write evidence.  No verdict is computed here: Python only moves
files around and counts; predicates live in spec/Props.tla and are evaluated by TLC."""
import hashlib, json, os, re, shutil, subprocess, sys, time, glob
from concurrent.futures import ThreadPoolExecutor

ROOT = os.path.dirname(os.path.dirname(os.path.abspath(__file__)))
SPEC = os.path.join(ROOT, 'spec')
HARNESS = os.path.join(ROOT, 'harness')
H2TV = os.path.join(HARNESS, 'target', 'release', 'h2tv')
WORK = os.path.join(ROOT, 'work')
EVID = os.environ.get('VERIF_EVIDENCE_DIR') or os.path.join(ROOT, 'evidence')     # (selftest writes elsewhere)
JARS = '/opt/veriftools/tla/tla2tools.jar:/opt/veriftools/tla/CommunityModules-deps.jar'
NPROC = 8


class ToolError(Exception):
    pass


def log(*a):
    print(*a, file=sys.stderr, flush=True)


def build_harness():
    env = dict(os.environ, CARGO_NET_OFFLINE='true')
    t = time.time()
    p = subprocess.run(['cargo', 'build', '--release', '--offline'], cwd=HARNESS, env=env,
                       stdout=subprocess.PIPE, stderr=subprocess.STDOUT, text=True)
    if p.returncode != 0:
        log(p.stdout[-4000:])
        raise ToolError('harness build failed (does /repo still compile?)')
    log('[build] harness ok in %.1fs' % (time.time() - t))


def workdir(prop):
    d = os.path.join(WORK, prop)
    os.makedirs(d, exist_ok=True)
    return d


def gen(family, n, seed, out, params=None):
    args = [H2TV, 'gen', family, str(n), str(seed), out] + ['%s=%s' % kv for kv in (params or {}).items()]
    p = subprocess.run(args, stdout=subprocess.PIPE, stderr=subprocess.STDOUT, text=True)
    if p.returncode != 0:
        raise ToolError('gen %s failed: %s' % (family, p.stdout[-2000:]))


def count_lines(path):
    n = 0
    with open(path, 'rb') as f:
        for _ in f:
            n += 1
    return n


def execute(cases, out, timeout_ms=20000, dom_max=20000, steps_every=0, nproc=NPROC):
    """Run the cases on the real library; large inputs are dealt in blocks to parallel processes
    (records stay in input order)."""
    total = count_lines(cases)
    if total < 4000 or nproc <= 1:
        return execute1(cases, out, timeout_ms, dom_max, steps_every)
    # blocks of CH consecutive cases are dealt round-robin to the parts, so that a run of slow cases (a family of
    # deep documents) is spread over all processes; the outputs are merged back in the same pattern
    CH = 16
    parts = ['%s.in%02d' % (out, k) for k in range(nproc)]
    fs = [open(pp, 'w') for pp in parts]
    with open(cases) as f:
        for i, line in enumerate(f):
            fs[(i // CH) % nproc].write(line)
    for x in fs:
        x.close()
    with ThreadPoolExecutor(max_workers=nproc) as ex:
        list(ex.map(lambda pp: execute1(pp, pp + '.out', timeout_ms, dom_max, steps_every), parts))
    fi = [open(pp + '.out') for pp in parts]
    with open(out, 'w') as fo:
        live = set(range(nproc))
        k = 0
        while live:
            if k in live:
                for _ in range(CH):
                    l = fi[k].readline()
                    if not l:
                        live.discard(k)
                        break
                    fo.write(l)
            k = (k + 1) % nproc
    for x in fi:
        x.close()
    for pp in parts:
        for x in (pp, pp + '.out', pp + '.out.journal'):
            if os.path.exists(x):
                os.remove(x)
    return total


def execute1(cases, out, timeout_ms=20000, dom_max=20000, steps_every=0):
    """Run cases on the real library. A crash (abort / stack overflow / signal) or a per-case timeout is
    attributed to the case in flight via the journal, recorded as data, and the run resumes after it."""
    journal = out + '.journal'
    total = count_lines(cases)
    skip = 0
    first = True
    while True:
        args = [H2TV, 'exec', cases, out, '--journal', journal, '--timeout-ms', str(timeout_ms), '--dom-max', str(dom_max)]
        if steps_every:
            args += ['--steps-every', str(steps_every)]
        if not first:
            args += ['--skip', str(skip)]
        p = subprocess.run(args, stdout=subprocess.PIPE, stderr=subprocess.PIPE)
        if p.returncode == 0:
            break
        try:
            line = int(open(journal).read().strip())
        except Exception:
            raise ToolError('exec died without journal: rc=%s %s' % (p.returncode, p.stderr[-500:]))
        if p.returncode != 3:
            # crash: the harness could not write a record; do it here
            with open(cases) as f:
                for i, l in enumerate(f):
                    if i + 1 == line:
                        cid = json.loads(l).get('id', '?')
                        break
            with open(out, 'a') as f:
                f.write(json.dumps({'id': cid, 'doms': [], 'runs': [], 'crash': 'signal rc=%d' % p.returncode, 'line': line}) + '\n')
        skip = line
        first = False
        if skip >= total:
            break
    return total


TLC_STATS = re.compile(r'(\d+) states generated, (\d+) distinct states found')


def run_tlc(module_dir, module, cfg, env=None, workers=1, heap='3g', timeout=3600, simulate=None, depth=None, extra=None, jit='c1', out_path=None):
    """Run TLC.  Returns (rc, output); with out_path the output goes to that file instead (large
    behaviour emissions) and the returned output is empty."""
    meta = os.path.join(WORK, 'tlcmeta', '%s_%d_%d' % (module, os.getpid(), int(time.time() * 1e6) % 10**9))
    os.makedirs(meta, exist_ok=True)
    e = dict(os.environ)
    e['JAVA_TOOL_OPTIONS'] = '-Xss1g -Dtlc2.tool.queue.IStateQueue=StateDeque' if workers == 1 else '-Xss1g'
    if env:
        e.update(env)
    # C1-only JIT: in this sandbox C2 compiler threads of parallel JVMs contend badly (10x wall on short runs)
    jitopts = ['-XX:TieredStopAtLevel=1'] if jit == 'c1' else ['-XX:CICompilerCount=2']
    args = ['java', '-XX:+UseParallelGC', '-XX:ParallelGCThreads=%d' % (2 if workers == 1 else 4)] + jitopts + ['-Xmx' + heap, '-cp', JARS, '-DTLA-Library=' + SPEC + ':' + os.path.join(SPEC, 'mc') + ':' + os.path.join(SPEC, 'trace'),
            'tlc2.TLC', '-workers', str(workers), '-metadir', meta, '-cleanup', '-noGenerateSpecTE', '-config', cfg]
    if simulate:
        args += ['-simulate', 'num=%d' % simulate]
        if depth:
            args += ['-depth', str(depth)]
    if extra:
        args += extra
    args.append(module + '.tla')
    try:
        if out_path:
            with open(out_path, 'w') as fo:
                p = subprocess.run(args, cwd=module_dir, env=e, stdout=fo, stderr=subprocess.STDOUT, timeout=timeout)
        else:
            p = subprocess.run(args, cwd=module_dir, env=e, stdout=subprocess.PIPE, stderr=subprocess.STDOUT, text=True, timeout=timeout)
    except subprocess.TimeoutExpired:
        shutil.rmtree(meta, ignore_errors=True)
        raise ToolError('TLC timeout on %s' % module)
    shutil.rmtree(meta, ignore_errors=True)
    return p.returncode, ('' if out_path else p.stdout)


def parse_stats(out):
    m = TLC_STATS.search(out)
    return (int(m.group(1)), int(m.group(2))) if m else (0, 0)


def split_trace(path, max_bytes=12 << 20, max_cases=4000):
    """Split an ndjson trace into batches; returns list of (path, first_index)."""
    parts = []
    idx = 0
    cur = None
    size = 0
    n = 0
    first = 0
    with open(path) as f:
        for line in f:
            if cur is None or size + len(line) > max_bytes or n >= max_cases:
                if cur:
                    cur.close()
                pp = '%s.part%03d' % (path, len(parts))
                cur = open(pp, 'w')
                parts.append((pp, idx))
                size = 0
                n = 0
            cur.write(line)
            size += len(line)
            n += 1
            idx += 1
    if cur:
        cur.close()
    return parts


BAD_RE = re.compile(r'"BAD",\s*(\{.*?\})\s*>>', re.S)
JUDGED_RE = re.compile(r'"JUDGED",\s*(\d+)')


def parse_tla_set(s):
    """Parse a printed TLC set of naturals or of <<n, "cls">> tuples."""
    out = []
    for m in re.finditer(r'<<\s*(\d+)\s*,\s*"([^"]*)"\s*>>', s):
        out.append((int(m.group(1)), m.group(2)))
    if out:
        return out
    return [(int(x), '') for x in re.findall(r'\d+', s)]


def judge(trace, prop, module='TraceProps', extra_env=None, nproc=NPROC, max_cases=4000):
    """Trace validation at predicate speed: returns (judged, [(global_index, cls)], states, tlc_wall)."""
    parts = split_trace(trace, max_cases=max_cases)
    t0 = time.time()

    def one(part):
        pp, first = part
        env = {'TRACE': pp, 'PROP': prop}
        if extra_env:
            env.update(extra_env)
        rc, out = run_tlc(os.path.join(SPEC, 'trace'), module, module + '.cfg', env=env, workers=1, heap='3g')
        mj = JUDGED_RE.search(out)
        mb = BAD_RE.search(out)
        if rc != 0 or not mj or not mb:
            k = out.find('Error:')
            raise ToolError('TLC trace validation failed on %s:\n%s' % (pp, out[k:k + 2500] if k >= 0 else out[-2500:]))
        bad = [(first + i - 1, cls) for i, cls in parse_tla_set(mb.group(1))]
        gen_states, _ = parse_stats(out)
        return int(mj.group(1)), bad, gen_states

    judged = 0
    bad = []
    states = 0
    with ThreadPoolExecutor(max_workers=nproc) as ex:
        for j, b, s in ex.map(one, parts):
            judged += j
            bad += b
            states += s
    for pp, _ in parts:
        os.remove(pp)
    return judged, bad, states, time.time() - t0


def steps_validate(trace, wd, maxn, nproc=NPROC):
    """Step-level trace validation (spec/trace/TraceSteps.tla): the runs of `trace` that carry hook events
    are replayed through the step machine one work item per TLC state.  Returns
    (records, events, [(record id, why)], tlc states, wall)."""
    import steps_extract
    sp = os.path.join(wd, 'steps.trace')
    n, ev = steps_extract.extract(trace, sp, maxn)
    if n == 0:
        return 0, 0, [], 0, 0.0
    ids = [json.loads(l)['id'] for l in open(sp)]
    per = max(1, (n + nproc - 1) // nproc)
    parts = split_trace(sp, max_cases=per)
    t0 = time.time()

    def one(part):
        pp, first = part
        rc, out = run_tlc(os.path.join(SPEC, 'trace'), 'TraceSteps', 'TraceSteps.cfg', env={'TRACE': pp, 'PROP': 'x'}, workers=1, heap='3g')
        mj = JUDGED_RE.search(out)
        mb = BAD_RE.search(out)
        me = re.search(r'"EVENTS",\s*(\d+)', out)
        if rc != 0 or not mj or not mb:
            k = out.find('Error:')
            raise ToolError('TLC step validation failed on %s:\n%s' % (pp, out[k:k + 2500] if k >= 0 else out[-2500:]))
        bad = [(ids[first + i - 1], why) for i, why in parse_tla_set(mb.group(1))]
        return int(mj.group(1)), int(me.group(1)) if me else 0, bad, parse_stats(out)[0]

    recs = evs = states = 0
    bad = []
    with ThreadPoolExecutor(max_workers=nproc) as ex:
        for j, e, b, st in ex.map(one, parts):
            recs += j
            evs += e
            bad += b
            states += st
    for pp, _ in parts:
        os.remove(pp)
    if recs != n:
        raise ToolError('step validation consumed %d of %d records' % (recs, n))
    return n, evs, bad, states, time.time() - t0


def read_ndjson(path):
    with open(path) as f:
        return [json.loads(l) for l in f if l.strip()]


def case_hash(case):
    return hashlib.sha256(json.dumps(case, sort_keys=True).encode()).hexdigest()[:16]


def load_known():
    p = os.path.join(ROOT, 'known_findings.json')
    if not os.path.exists(p):
        return {'findings': [], 'fixed': []}
    return json.load(open(p))


def cells_str(line):
    return ''.join(chr(c[0]) for c in line if c[0] >= 0)


def write_evidence(prop, tier, seed, coverage, wall, violations, assumptions, level='model_checking'):
    os.makedirs(EVID, exist_ok=True)
    ev = {'property_id': prop, 'tier': tier, 'seed': seed, 'level': level, 'coverage': coverage,
          'assumptions': assumptions, 'wall_s': round(wall, 2), 'violations': violations}
    with open(os.path.join(EVID, prop + '.json'), 'w') as f:
        json.dump(ev, f, indent=1, ensure_ascii=False)
        f.write('\n')
