#!/usr/bin/env python3
"""tlcrun.py <module> <trace> [PROP] : run a trace spec once and print the tail (debug aid)"""
import sys; sys.path.insert(0,'/verif/bin')
import vlib, re
rc,out=vlib.run_tlc('/verif/spec/trace',sys.argv[1],sys.argv[1]+'.cfg',env={'TRACE':sys.argv[2],'PROP':sys.argv[3] if len(sys.argv)>3 else 'x'}, timeout=int(sys.argv[4]) if len(sys.argv)>4 else 600)
i=out.find('Starting...')
print(out[i:][:6000])
