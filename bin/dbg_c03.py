#!/usr/bin/env python3
"""debug helper (not part of any verdict): letter diff between DOM flow text and output for a violation file"""
import json, sys, difflib
WS={9,10,11,12,13,32,133,160,5760,8232,8233,8239,8287,12288}|set(range(8192,8203))
def isl(k): return 97<=k<=122 or (k>=768 and k!=822 and k not in WS and not (9472<=k<=9599) and not (8304<=k<=8351))
def flow(n):
    if n['k']=='t': return [c[0] for c in n['s']]
    if n['k']!='e': return []
    if n['h'] and n['n'] in ('head','script','style','link','meta','hr'): return []
    if n['h'] and n['n']=='img':
        a=n['a']; return [c[0] for c in a['alt']] if a.get('alt') and a.get('src') else []
    return [x for c in n['c'] for x in flow(c)]
d=json.load(open(sys.argv[1]))
o=d['observed']
for run in o['runs']:
    dom=o['doms'][run['d']-1]
    v=''.join(chr(k) for n in dom for k in flow(n) if isl(k))
    out=''.join(chr(c[0]) for ln in run['res']['lines'] for c in ln if c[0]>=0 and isl(c[0]))
    sm=difflib.SequenceMatcher(None,v,out,autojunk=False)
    for tag,i1,i2,j1,j2 in sm.get_opcodes():
        if tag!='equal': print(tag, repr(v[i1:i2]), '->', repr(out[j1:j2]), 'ctx', repr(v[max(0,i1-10):i1]))
