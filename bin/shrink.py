#!/usr/bin/env python3
"""shrink.py <property> <replay.json> [out.json] : reduce the document of a violating case (debug aid, not a check).
Works on cases whose runs all carry the same `html`: removes elements (with or without their content) and text
chunks as long as the predicate of the property still fails on what the real library returns."""
import json, os, re, sys
sys.path.insert(0, os.path.dirname(os.path.abspath(__file__)))
import vlib

prop, path = sys.argv[1], sys.argv[2]
out = sys.argv[3] if len(sys.argv) > 3 else path + '.min.json'
d = json.load(open(path))
case = d['case'] if 'case' in d else d
htmls = [r.get('html') for r in case['runs']]
wd = vlib.workdir(prop)


def fails(c):
    cp, tp = os.path.join(wd, 'shrink.cases'), os.path.join(wd, 'shrink.trace')
    with open(cp, 'w') as f:
        f.write(json.dumps(c) + '\n')
    vlib.execute1(cp, tp)
    rec = vlib.read_ndjson(tp)[0]
    if rec.get('crash'):
        return prop in ('C01', 'C17')
    _, bad, _, _ = vlib.judge(tp, prop)
    return bool(bad)


def with_html(f):
    c = json.loads(json.dumps(case))
    for r in c['runs']:
        if r.get('html') is not None:
            r['html'] = f(r['html'])
    return c


TOK = re.compile(r'<!--.*?-->|<[^>]+>|[^<]+', re.S)


def variants(html):
    toks = TOK.findall(html)
    # element spans
    stack, spans = [], []
    for i, t in enumerate(toks):
        m = re.match(r'<([a-zA-Z0-9]+)[^>]*>$', t)
        if m and not t.endswith('/>') and m.group(1).lower() not in ('br', 'img', 'hr', 'html', 'body', 'head'):
            stack.append((m.group(1).lower(), i))
        m = re.match(r'</([a-zA-Z0-9]+)>$', t)
        if m:
            for k in range(len(stack) - 1, -1, -1):
                if stack[k][0] == m.group(1).lower():
                    spans.append((stack[k][1], i))
                    del stack[k:]
                    break
    spans.sort(key=lambda s: s[0] - s[1])          # big spans first
    for a, b in spans:
        yield ''.join(toks[:a] + toks[b + 1:])           # element with content
    for a, b in spans:
        yield ''.join(toks[:a] + toks[a + 1:b] + toks[b + 1:])   # unwrap
    for i, t in enumerate(toks):
        if not t.startswith('<') and len(t) > 1:
            yield ''.join(toks[:i] + [t[:len(t) // 2]] + toks[i + 1:])
            yield ''.join(toks[:i] + [t[len(t) // 2:]] + toks[i + 1:])
        elif not t.startswith('<') or re.match(r'<(br|img|hr)\b', t):
            yield ''.join(toks[:i] + toks[i + 1:])
    for i, t in enumerate(toks):
        m = re.match(r'<([a-zA-Z0-9]+)\s[^>]*>$', t)
        if m:
            yield ''.join(toks[:i] + ['<%s>' % m.group(1)] + toks[i + 1:])   # drop attributes


if len(set(h for h in htmls if h is not None)) != 1:
    print('runs differ in html: not reducible by this helper')
    sys.exit(2)
cur = [h for h in htmls if h is not None][0]
assert fails(case), 'the case does not fail to begin with'
progress = True
tries = 0
while progress and tries < 400:
    progress = False
    for v in variants(cur):
        if len(v) >= len(cur):
            continue
        tries += 1
        if fails(with_html(lambda _h, v=v: v)):
            cur = v
            progress = True
            print('%4d  %d bytes' % (tries, len(cur)), flush=True)
            break
        if tries >= 400:
            break
res = with_html(lambda _h: cur)
json.dump({'case': res}, open(out, 'w'), indent=1, ensure_ascii=False)
print(json.dumps(cur, ensure_ascii=False))
print('written', out)
