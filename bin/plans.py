#!/usr/bin/env python3
"""Per-property plans (which MC configs, which generator families, how many cases per tier) and the
generic check loop."""
import json, os, sys, time, hashlib
import vlib
from vlib import log, ROOT, WORK


def nt_near_width(rec):
    """C02-style non-triviality: a successful run with a line within one column of the width."""
    for r in rec.get('runs', []):
        if r['res']['k'] == 'ok' and r['w'] >= 1 and any(sw >= r['w'] - 1 for sw in r['res']['sw']):
            return True
    return False


def nt_ok_nonempty(rec):
    return any(r['res']['k'] == 'ok' and len(r['res']['lines']) > 0 for r in rec.get('runs', []))


def nt_all(rec):
    return True


def mcc(module, base, **kw):
    d = dict(module=module, cfg={'quick': base + '_quick.cfg', 'thorough': base + '_thorough.cfg'})
    d.update(kw)
    return d


MC_WRAP = mcc('MC_Wrap', 'MC_Wrap', invariants='Inv_Width Inv_Overflow Inv_Conserve Inv_Frags Inv_Greedy Inv_WsIdem Inv_Pad')
MC_WRAP_PRE = mcc('MC_Wrap', 'MC_WrapPre', invariants='Inv_Width Inv_Overflow Inv_Conserve Inv_Frags Inv_Pad')
MC_WRAP_MARKS = mcc('MC_Wrap', 'MC_WrapMarks', invariants='Inv_Width Inv_Conserve Inv_Frags')
MC_BLOCK = mcc('MC_Block', 'MC_Block', invariants='Inv_C02_Step Inv_C03_Step Inv_C09_Balanced Inv_C01 Inv_C11 Inv_P_C02 Inv_P_C03 Inv_P_C08 Inv_P_C09 Inv_P_C14')

MC_LIVE = mcc('MC_Block', 'MC_BlockLive', invariants='PROPERTY Terminates: (phase = render) ~> (phase = done) under weak fairness of the step machine')
MC_REL = mcc('MC_Block', 'MC_Rel', invariants='Inv_Rel_C11 Inv_Rel_C13 Inv_Rel_C15 Inv_Rel_C07 (the relational predicates P_C11 / P_C13 / P_C15 / P_C07 on pairs of model renderings: overflow / width 0, white-space variants, one option at a time, a block against its items at the narrower width)')

MC_WORDS = mcc('MC_Words', 'MC_Words', invariants='Inv_Greedy Inv_Width')

MC_TABLE = mcc('MC_Block', 'MC_Table', invariants='Inv_C02_Step Inv_C03_Step Inv_C09_Balanced Inv_C01 Inv_Alloc Inv_P_C02 Inv_P_C03 Inv_P_C05 Inv_P_C06')

MC_API = mcc('MC_Api', 'MC_Api', invariants='Inv_P_C10 Inv_LiveTreesClean')

MC_LOOPS = mcc('MC_Loops', 'MC_Loops', invariants='Inv_Bound Inv_Shrink Inv_Tab; PROPERTY Terminates (weak fairness)')

MC_CSSTOK = mcc('MC_CssTok', 'MC_CssTok', invariants='(enumeration) every style sheet of at most MaxLen tokens over the alphabet is emitted and replayed: as user / agent sheet (Ok or CssParseError, no panic / hang) and inside <style> against the same document without it')
MC_CSSSYN = mcc('MC_CssSyntax', 'MC_CssSyntax', invariants='Inv_Syntax (on every well-formed sheet the transcription of parse_stylesheet keeps exactly the rule sets the CSS Syntax reference keeps), Inv_Stop (and reads it to the end); every sheet emitted and replayed')
MC_CSSSYN_DEEP = mcc('MC_CssSyntax', 'MC_CssSyntaxDeep', invariants='Inv_Syntax, Inv_Stop over a smaller alphabet and longer sheets (blocks nested in declaration values)')
MC_CSSSYN_COMB = mcc('MC_CssSyntax', 'MC_CssSyntaxComb', invariants='Inv_Syntax, Inv_Stop over selector preludes: compounds, the child combinator, the unsupported sibling combinators + and ~, commas, good rule sets and a selector-less block and :nth-child tokens (sheets of <= 4, thorough 6, atoms over 10)')
MC_SELECTOR = mcc('MC_Css', 'MC_Selector', invariants='Inv_Selector (RefMatch = DoMatches on every node)')
MC_SELECTOR_ID = mcc('MC_Css', 'MC_SelectorId', invariants='Inv_Selector over trees and selectors with ids (fewer nodes)')
MC_SELECTOR_LONG = mcc('MC_Css', 'MC_SelectorLong', invariants='Inv_Selector over selectors of three compounds (fewer nodes, no ids): html / body above the generated nodes give every combinator chain something to walk')
MC_CASCADE = mcc('MC_Css', 'MC_Cascade', invariants='Inv_Cascade (MaybeUpdate fold = RefCascade)')
MC_HIDE = mcc('MC_Css', 'MC_Hide', invariants='Inv_Hide (render of styled d = render of DeleteHidden(d))')

# property -> plan
PLANS = {
    'C02': dict(
        fams=[('c02', dict(quick=3000, thorough=60000), {})],
        mc=[MC_WRAP, MC_BLOCK, MC_TABLE],
        nontrivial=nt_near_width,
        rule='seeded grammar documents (blocks, inline, lists, quotes, tables with colspans/nesting, pre, links, wide+combining chars) x option mixes without overflow/no_link_wrapping x widths 1..120; non-trivial = renders Ok with a line within 1 column of the width; distinct by sha256(html,width,cfg)',
        assumptions=['unicode-width 0.2 cell widths as measured by the harness; string-level width also checked per line',
                     'documents drawn from the seeded grammar (VERIF_SEED); exhaustive part is the MC configuration scope'],
    ),
    'C04': dict(
        fams=[('c04', dict(quick=3000, thorough=60000), {})],
        mc=[MC_WRAP, MC_WORDS],
        nontrivial=lambda rec: any(r['res']['k'] == 'ok' and len(r['res']['lines']) >= 2 for r in rec.get('runs', [])),
        rule='MC: every character sequence (MC_Wrap) and every word sequence (MC_Words) in scope; random: paragraphs of 1..60 words (wide, combining) split across text nodes and em/strong/code/span/a/i, bare / max_wrap_width / inside blockquote or li, widths 1..40; non-trivial = renders to at least two lines; distinct by sha256(html,width,cfg)',
        assumptions=['reference greedy wrapper Greedy() is the declarative definition in spec/Wrap.tla', 'words consisting only of zero-width characters are outside the claim (as in the quantifier)'],
    ),
    'C12': dict(
        fams=[('c12', dict(quick=3000, thorough=60000), {})],
        mc=[MC_WRAP_PRE],
        nontrivial=lambda rec: any(r['res']['k'] == 'ok' and len(r['res']['lines']) >= 2 for r in rec.get('runs', [])),
        rule='MC: every character sequence over {a, wide, space, newline, tab} in Pre mode (MC_Wrap); random: one <pre> of 1..8 lines (words, runs of 1..5 spaces, tabs, wide chars, inline elements, <br>), bare or inside li/blockquote, widths 1..60, rich lines and string routes; non-trivial = Ok with at least two output lines; distinct by sha256(html,width,cfg)',
        assumptions=['trailing spaces are compared modulo right-stripping (the statement allows their removal, it does not demand it)',
                     'blank output pieces are not attributed to a source line'],
    ),
    'C11': dict(
        fams=[('c11', dict(quick=3000, thorough=60000), {})],
        mc=[MC_BLOCK, MC_REL],
        nontrivial=lambda rec: len(rec.get('runs', [])) == 3 and rec['runs'][1]['res']['k'] != rec['runs'][2]['res']['k'] or any(r['res']['k'] == 'ok' and any(sw > r['w'] for sw in r['res']['sw']) for r in rec.get('runs', [])),
        rule='each case = three runs (d,0,o), (d,w,o), (d,w,o+overflow) on grammar documents and byte mutations, widths 1..60, random option mixes; non-trivial = the base run fails while the overflow run succeeds, or some line overflows the width; distinct by sha256(runs)',
        assumptions=['the line bound uses P(d) computed in TLA+ from the harness DOM and the observed decorator strings; footnote lines are bounded only when links are wrappable'],
    ),
    'C13': dict(
        fams=[('c13', dict(quick=3000, thorough=60000), {})],
        mc=[MC_WRAP, MC_REL],
        nontrivial=lambda rec: any(r['res']['k'] == 'ok' and len(r['res']['lines']) >= 2 for r in rec.get('runs', [])),
        rule='each case = a table-free, pre-free grammar document and a source-level rewrite of it (whitespace-run substitution, comments next to whitespace, span wrapping of inline runs that contain a word, newlines/indentation between the blocks of an element that has visible content), same width 1..100 and configuration; MC_Wrap checks idempotence/interchangeability of collapsible whitespace on every state; non-trivial = Ok with >= 2 lines; distinct by sha256(runs)',
        assumptions=['rewrite (d) treats as blocks only what the library lays out as blocks; white space is never inserted into an element without visible content (known finding ws-only-block)'],
    ),
    'C15': dict(
        fams=[('c15', dict(quick=4000, thorough=80000), {})],
        mc=[MC_REL],
        nontrivial=lambda rec: len(rec.get('runs', [])) == 2 and rec['runs'][0]['res'] != rec['runs'][1]['res'],
        rule='each case = (d,w,base) and (d,w,base+o) for o in {max_wrap_width(m), pad_block_width, unicode_strikeout(false), no_table_borders, raw_mode, link_footnotes(false), no_link_wrapping, min_wrap_width(k), raw_mode(false) after no_table_borders}; half of the documents have nothing the option applies to; non-trivial = the two results differ; distinct by sha256(runs)',
        assumptions=['the per-option relation is the one written next to P_C15 in spec/Props.tla'],
    ),
    'C14': dict(
        fams=[('c14', dict(quick=3000, thorough=60000), {})],
        mc=[MC_WRAP_MARKS],
        nontrivial=lambda rec: bool(rec.get('runs')) and rec['runs'][0]['res']['k'] == 'ok' and any(x[0] == -1 for ln in rec['runs'][0]['res']['lines'] for x in ln),
        rule='MC: MC_Wrap with fragment markers and tag switches at every position relative to wrap points (Inv_Frags conservation in every state); random: grammar documents with unique ids / anchor names on random elements (p, div, span, em, a[name], li, ul, ol, blockquote, h*, pre, td, tr, table, dl/dt/dd), widths 1..100 with half of them <= 12; runs: lines route, string route with and without the ids; non-trivial = Ok and at least one marker; distinct by sha256(runs)',
        assumptions=['the position clause is evaluated on table-free documents (letters before the marker = letters before the element in V(d)); ids on elements without visible text may or may not yield a marker'],
    ),
    'C07': dict(
        fams=[('c07', dict(quick=3000, thorough=60000), {}), ('c16', dict(quick=1500, thorough=20000), {})],     # (c16: the same shapes under parameterised decorators, some styled by nesting level)
        mc=[MC_BLOCK, MC_REL],
        nontrivial=lambda rec: len(rec.get('runs', [])) >= 2 and all(r['res']['k'] == 'ok' for r in rec['runs']) and len(rec['runs'][0]['res']['lines']) >= 2,
        rule='each case = one block B in {ul, ol(start in {absent,-100,-12,-9,-1,0,1,5,9,95,98,100,999}, 1..15 items), blockquote, h1..h6, dd} with random flow content (nested blocks included) at width w, plus one auxiliary run per item: the item content as a stand-alone document at w - prefix width; the predicate composes the real sub-renderings with the prefixes; non-trivial = all runs Ok and B has >= 2 lines; distinct by sha256(runs)',
        assumptions=['content without links (footnote numbering is global by design, C08)', 'prefix strings are the ones the decorator returns (observed through its trait methods)'],
    ),
    'C08': dict(
        fams=[('c08', dict(quick=3000, thorough=60000), {})],
        mc=[MC_BLOCK],
        nontrivial=lambda rec: bool(rec.get('runs')) and rec['runs'][0]['res']['k'] == 'ok' and any(len(l) > 3 and l[0][0] == 91 and l[-1][0] != 93 and any(c[0] == 58 for c in l[:6]) for l in rec['runs'][0]['res']['lines']),
        rule='grammar documents biased to many links (unique letter texts, repeated hrefs) in paragraphs, lists, quotes, headings, table cells, nested tables, and (one case in eight) links nested in a link through the cells of a table it holds (references then appear in the post-order of the link tree); widths 10..120; decorators plain/trivial/rich/plain_nd; each case rendered with link_footnotes(true) and (false); the expected footnote block is laid out by the specification (Render!FmtLink); non-trivial = Ok with a footnote block; distinct by sha256(runs)',
        assumptions=['inside side-by-side table cells a reference may be cut by the cell boundary: there only membership in 1..n and uniqueness of complete references are checked, the footnote block is always checked exactly'],
    ),
    'C09': dict(
        fams=[('c09', dict(quick=3000, thorough=60000), {}), ('c19', dict(quick=1500, thorough=20000), {}), ('c12', dict(quick=4000, thorough=60000), {})],
        mc=[MC_BLOCK],
        nontrivial=lambda rec: bool(rec.get('runs')) and rec['runs'][0]['res']['k'] == 'ok' and any(len(x) > 2 and len(x[2]) >= 2 for ln in rec['runs'][0]['res']['lines'] for x in ln),
        rule='grammar documents with random nestings of em/i/strong/s/del/code/a/img/pre/span/sup inside paragraphs, lists, quotes, headings, table cells; widths 1..100 (half <= 25); rich lines route compared letter by letter with the annotation vector of the DOM ancestors, and with the rich string route; plus the C19 family (documents with sheets, tables included) judged by the colour clause (effective colour of every letter = reference cascade); non-trivial = Ok with some cell carrying >= 2 annotations; distinct by sha256(runs)',
        assumptions=['for side-by-side tables the (letter, vector) pairs are compared as multisets'],
    ),
    'C05': dict(
        fams=[('c05', dict(quick=5000, thorough=60000), {})],
        mc=[MC_TABLE],
        nontrivial=lambda rec: bool(rec.get('runs')) and rec['runs'][0]['res']['k'] == 'ok' and any(c[0] in (9516, 9524, 9532) for ln in rec['runs'][0]['res']['lines'] for c in ln),
        rule='MC: every regular table of the scope (<= 2 rows, 2-3 columns, all colspan tilings, cell classes empty/short/two-word/wide) at every width of the config, rendered step by step; random: regular tables 1..5 x 1..6 with tiling colspans, cells empty/short/long/multi-line/wide, nested regular tables, thead/tbody, widths 1..100, plain decorator, one case in five rendered from a clone of the render tree (staged calls); non-trivial = Ok with at least one junction glyph; distinct by sha256(runs)',
        assumptions=['the output is read as a display-column grid using the harness cell widths', 'a table without any bar and with ragged lines is read as the stacked layout'],
    ),
    'C06': dict(
        fams=[('c06', dict(quick=5000, thorough=60000), {})],
        mc=[MC_TABLE],
        nontrivial=lambda rec: bool(rec.get('runs')) and rec['runs'][0]['res']['k'] == 'ok' and any(c[0] == 9474 for ln in rec['runs'][0]['res']['lines'] for c in ln),
        rule='as C05 without nesting (one case in five from a cloned render tree likewise); every non-empty cell is filled with copies of its own unique character, so that the strip (display columns) and the lines of every cell can be read off the output; MC additionally checks on every table of the scope that the column allocation fits the width, never starves a column that holds text, and that the shrink loop cannot get stuck (Inv_Alloc); non-trivial = Ok with at least one vertical bar; distinct by sha256(runs)',
        assumptions=['separation (iii) is checked between horizontally adjacent non-empty cells'],
    ),
    'C10': dict(
        fams=[('c10', dict(quick=2500, thorough=50000), {})],
        mc=[MC_API],
        model_ok=False,
        nontrivial=lambda rec: len({(s['op'], s['route']) for s in rec.get('hist', []) if s['op'] in ('oneshot', 'render')}) >= 3,
        rule='MC: every history of <= MaxOps API calls (one-shot string/lines[/coloured], parse_html, dom_to_render_tree, clone, render_to_string/lines[/coloured] consuming the tree) over 2 documents and widths {0, 3, 9}; each emitted history is replayed call by call on the real API (one configuration object for all staged calls of a history) and compared with the specification after every call; random: histories of 4..14 calls over 1-2 grammar documents, 2-4 widths (repeated, out of order, failing ones in between), all decorators and option mixes; non-trivial = at least three distinct (call kind, route) pairs produce a rendering; distinct by sha256(history)',
        assumptions=['the colour map of the coloured routes is the identity', 'lines routes are compared after joining the tagged strings of each line'],
    ),
    'C16': dict(
        fams=[('c16', dict(quick=3000, thorough=60000), {})],
        mc=[],
        nontrivial=lambda rec: bool(rec.get('runs')) and rec['runs'][0]['cfg']['deco'] == 'custom' and rec['runs'][0]['res']['k'] == 'ok' and any(c[0] > 127 and c[0] not in (19968, 20108, 35486, 127881, 769, 822) for ln in rec['runs'][0]['res']['lines'] for c in ln),
        rule='decorators from a family parameterised by prefix/affix strings over {ASCII, 2-byte width-1, 3-byte width-2, empty} (affix and prefix characters from disjoint pools); three shapes: a C07-style block with stand-alone renderings of its items at width - display_width(prefix); a block-grammar document whose letters+affix-characters stream must equal the one derived from the DOM; a TrivialDecorator run whose non-space, non-border output must equal V(d); widths 4..80; non-trivial = Ok with a non-ASCII decorator character in the output; distinct by sha256(runs)',
        assumptions=['decorator strings are observed through the trait methods, never assumed', 'the affix stream is compared on table-free documents'],
    ),
    'C01': dict(
        fams=[('c01', dict(quick=3000, thorough=40000), dict(depth=6000)), ('c01', dict(quick=0, thorough=36), dict(depth=50000, stack='main', shape='deep'))],
        mc=[MC_LOOPS, MC_LIVE, MC_BLOCK, MC_TABLE],
        model_ok=False,
        timeout_ms=dict(quick=60000, thorough=900000),
        nontrivial=lambda rec: bool(rec.get('runs')) and rec['runs'][0]['res']['k'] in ('ok', 'narrow'),
        rule='MC: no panic state (Inv_C01: shrink loop stuck, column index out of range, missing border line, stack depth) is reachable in MC_Block / MC_Table; random: grammar documents under 1-8 byte mutations (bit flips, splices, truncation, invalid UTF-8, control characters, hostile numbers), random bytes, nesting depth 100 / 1000 / 6000 of 18 element kinds on a thread with a 512 KB stack (the stack budget per level of depth 10^5 on an 8 MB main thread; thorough also depth 50000 on 8 MB), hostile colspan / ol start, 50-400 column tables; widths {0,1,2,3,1..200,10^5,usize::MAX-1,usize::MAX}; decorators plain/plain_nd/rich/trivial/ASCII custom x random subsets of all options incl. use_doc_css / add_css / add_agent_css, all routes; each case runs under a watchdog (quick 60 s, thorough 15 min) in a process whose death is attributed to the case in flight; non-trivial = the call returned Ok or TooNarrow; distinct by sha256(runs)',
        assumptions=['byte-level behaviour of html5ever and of the nom CSS tokenizer is explored, not modelled (DESIGN.md section 10): for those the specification supplies only the Call/Return oracle',
                     'time bound: 60 s per case in the quick tier, 15 min in the thorough tier',
                     'beyond 1000 nesting levels only configurations whose output is linear in the depth are run (string routes of the decorators without annotations; nested tables without allow_width_overflow): annotated output carries the full annotation vector on every piece of text and is quadratic in the depth by construction of the API',
                     'stack use must not grow with the nesting depth: deep documents run on a 512 KB thread (depth 6000) and, in the thorough tier, on 8 MB (depth 50000)'],
    ),
    'C17': dict(
        fams=[('c17', dict(quick=4000, thorough=80000), {})],
        mc=[MC_CSSTOK, MC_CSSSYN, MC_CSSSYN_DEEP, MC_CSSSYN_COMB],
        model_ok=False,
        drift_prop=dict(src='MC_CssSyntax', prop='C20'),
        timeout_ms=dict(quick=30000, thorough=120000),
        nontrivial=lambda rec: len(rec.get('runs', [])) >= 1 and rec['runs'][0]['res']['k'] in ('ok', 'csserr') and (len(rec['runs']) == 1 or any(len(x) > 2 and any(t[0] in ('Fg', 'Bg') for t in x[2]) for ln in rec['runs'][0]['res']['lines'] for x in ln) or rec['runs'][0]['route'] == 'string'),
        rule='MC (parser model, CssSyntax.tla): every sheet of <= 4 (thorough 5) atoms over 14 (22) atoms - tokens incl. the child combinator, whole good rule sets and a block without selector - and of <= 5 (7) atoms over 8, and of <= 4 (6) atoms over the 10 of selector preludes (compounds, `>`, the unsupported `+` and `~`, commas, :nth-child tokens, good rule sets): invariants on the model, then each sheet in <style> of a fixed document: well-formed sheets against the canonical text of their reference rules (variant), the others for totality, all against the colours the model predicts (drift); MC (enumeration): every sequence of <= 3 (thorough 4) CSS tokens from an alphabet of 26 (30) token spellings, as user sheet, agent sheet and <style> content; random, three shapes: (total) add_css / add_agent_css with truncations of valid sheets, token soup over the CSS token alphabet, byte-mutated sheets: Ok or CssParseError under a watchdog; (inert) a document with <style>s</style> (s without display / content / white-space / height / overflow) against the same document without it: same result kind and letters; (variant) a valid sheet of 1-4 colour rules in canonical spelling against a variant (spacing, comments, upper-case properties and hex digits, rgb() spelling, final ; dropped or doubled, unknown properties, @import / @media / @font-face / unparsable rule sets in between), via <style> or add_css: equal rich renderings; distinct by sha256(runs)',
        assumptions=['the character-level tokenizer is explored, not modelled; the statement level of the parser (rule sets, declarations, values, recovery) is modelled at token level in CssSyntax.tla (DESIGN.md section 11)'],
    ),
    'C18': dict(
        fams=[('c18', dict(quick=2500, thorough=50000), {})],
        mc=[MC_HIDE],
        nontrivial=lambda rec: len(rec.get('runs', [])) >= 2 and rec['runs'][0]['res']['k'] == 'ok' and (len(rec['runs']) < 3 or rec['runs'][0]['res'] != rec['runs'][2]['res']),
        rule='block-grammar documents (lists, quotes, headings, links, tables, pre) in which random subtrees (incl. li, td, tr, table, a, headings) are hidden through a class rule, an id rule, an element rule, an inline style, or the height:0 + overflow:hidden idiom (rule or inline); one case in eight: a chain of 3-5 nested blocks with repeating names and classes and a display:none rule of 2-4 compounds joined by child / descendant combinators that reaches (or just misses) a span at the bottom, so that matching has to backtrack over the ancestors; run 1 = the document with use_doc_css, run 2 = the document with those subtrees deleted, runs 3/4 = use_doc_css off against the document stripped of its style element and style attributes; the predicate also checks that the deleted document is Css!DeleteHidden of the original (reference selector + cascade semantics); widths 1..100; non-trivial = hiding changes the output; distinct by sha256(runs)',
        assumptions=['hidden sets are constructed by marking (the generator never evaluates selectors); the specification re-derives them with RefMatch / RefCascade and a disagreement is a tool error'],
    ),
    'C19': dict(
        fams=[('c19', dict(quick=2500, thorough=50000), {})],
        mc=[MC_CASCADE],
        nontrivial=lambda rec: bool(rec.get('runs')) and rec['runs'][0]['res']['k'] == 'ok' and len({tuple(t) for ln in rec['runs'][0]['res']['lines'] for x in ln if len(x) > 2 for t in x[2] if t[0] in ('Fg', 'Bg')}) >= 2,
        rule='documents with classes / ids and three sheets (agent via add_agent_css, user via add_css, author via <style>) of 0-3 rules each over selectors of the five specificity classes (element, class, id, element+class, nth-child) with normal / !important colour and background declarations, plus inline style / legacy color attributes; the effective colour of every letter (last Colour / BgColour annotation) must be the one Css!RefCascade gives for the nearest declared ancestor; non-trivial = at least two different colour annotations occur; distinct by sha256(runs)',
        assumptions=['inline styles are written in the canonical spelling that the harness abstracts into declarations'],
    ),
    'C20': dict(
        fams=[('c20', dict(quick=2500, thorough=50000), {})],
        mc=[MC_SELECTOR, MC_SELECTOR_ID, MC_SELECTOR_LONG],
        nontrivial=lambda rec: bool(rec.get('runs')) and rec['runs'][0]['res']['k'] == 'ok' and any(len(x) > 2 and any(t == ['Fg', 0, 0, 254] for t in x[2]) for ln in rec['runs'][0]['res']['lines'] for x in ln),
        rule='documents of nested div/p/span/em/ul/li/section/b with classes {x,y,z}, ids and mixed text / element children; one author rule with 1-2 selectors of up to 4 compound steps (element, class(es), id, *, descendant and child combinators, :nth-child(an+b | odd | even) with a, b in -5..5) colouring over the agent rule * {color}; the letters coloured by the rule must be exactly those whose parent element Css!RefMatch designates (reference runs on the whole DOM incl. html / head / body); non-trivial = the rule colours at least one letter; distinct by sha256(runs)',
        assumptions=['selector spelling varies in insignificant syntax only'],
    ),
    'C03': dict(
        fams=[('c03', dict(quick=3000, thorough=60000), {})],
        mc=[MC_WRAP_MARKS, MC_BLOCK, MC_TABLE],
        nontrivial=nt_ok_nonempty,
        rule='seeded grammar documents with unique letter tokens x decorators x option mixes x widths 1..200; non-trivial = renders Ok with at least one line; distinct by sha256(html,width,cfg)',
        assumptions=['generated hrefs/ids/src are letter-free so Letters() cannot mistake markup for text',
                     'flow text V(d) computed in TLA+ from the harness\'s own html5ever DOM'],
    ),
}


def case_key(case):
    runs = case.get('runs') or case.get('hist') or []
    return hashlib.sha256(json.dumps(runs, sort_keys=True).encode()).hexdigest()


def sample_of(case, rec):
    s = {'id': case.get('id')}
    if case.get('runs'):
        r0 = case['runs'][0]
        s['html'] = (r0.get('html') or r0.get('hx') or '')[:400]
        s['w'] = r0.get('w', r0.get('wx'))
        s['cfg'] = r0.get('cfg')
        s['n_runs'] = len(case['runs'])
    if case.get('hist'):
        s['docs'] = [d[:200] for d in case.get('docs', [])]
        s['cfg'] = case.get('cfg')
        s['history'] = [dict(op=h['op'], w=h.get('w'), route=h.get('route'), result=st['res']['k']) for h, st in zip(case['hist'], rec.get('hist', []))]
    if rec.get('runs'):
        res = rec['runs'][0]['res']
        s['result'] = res['k']
        s['first_lines'] = [vlib.cells_str(l) for l in res['lines'][:4]]
    return s


def known_for(prop):
    k = vlib.load_known()
    return ([f for f in k.get('findings', []) if f['property'] == prop],
            [f for f in k.get('fixed', []) if f['property'] == prop])


def crash_known(findings, case, rec):
    """A crashed / timed-out case against the recorded findings that are identified by the kind of crash and the shape
    of the input (known_findings.json, key `crash_class`): {"crash": kind, "unit": markup, "min_repeat": n} matches a
    case all of whose runs feed a document that starts with at least n repetitions of the unit."""
    for f in findings:
        cc = f.get('crash_class')
        if not cc or rec.get('crash') != cc['crash']:
            continue
        unit = cc['unit'].encode()
        runs = case.get('runs') or []
        ok = bool(runs)
        for r in runs:
            if r.get('rep'):
                b = r['rep']['unit'].encode() * r['rep']['n'] + r['rep'].get('tail', '').encode()
            else:
                b = bytes.fromhex(r['hx']) if r.get('hx') is not None else (r.get('html') or '').encode()
            if not b.startswith(unit * cc['min_repeat']):
                ok = False
        if ok:
            return f['id']
    return None


def run_check(prop, tier, seed, t0, no_mc=False):
    plan = PLANS[prop]
    wd = vlib.workdir(prop)
    findings, fixed = known_for(prop)
    all_cases = []       # input cases, aligned with trace records
    trace_path = os.path.join(wd, 'all.trace')
    cases_path = os.path.join(wd, 'all.cases')
    mc_info = dict(states=0, transitions=0, runs=[], behaviours=0, drift=0, model_violations=0)

    with open(cases_path, 'w') as allc:
        # 1. canonical inputs of known findings and of fixed defects (regressions)
        n_canon = 0
        for f in findings + fixed:
            for c in f.get('canonical', []):
                c = dict(c)
                c['id'] = 'canon:%s:%d' % (f['id'], n_canon)
                c.setdefault('meta', {})
                allc.write(json.dumps(c) + '\n')
                n_canon += 1
        # 2. behaviours emitted by the model-checking configurations
        if not no_mc:
            for mc in plan.get('mc', []):
                import mcrun
                info = mcrun.run_mc(prop, mc, tier, wd, seed)
                mc_info['states'] += info['distinct']
                mc_info['transitions'] += info['generated']
                mc_info['runs'].append(info['summary'])
                mc_info['behaviours'] += info['behaviours']
                mc_info['model_violations'] += info.get('model_violations', 0)
                if info.get('cases'):
                    with open(info['cases']) as f:
                        for l in f:
                            allc.write(l)
        # 3. seeded random families
        for k, (fam, counts, params) in enumerate(plan['fams']):
            fp = os.path.join(wd, 'fam%d.cases' % k)
            if counts[tier] <= 0:
                continue
            vlib.gen(fam, counts[tier], seed * 1000 + k, fp, params)
            with open(fp) as f:
                for l in f:
                    allc.write(l)
            os.remove(fp)

    tmo = plan.get('timeout_ms', 20000)
    n_steps = plan.get('steps_sample', dict(quick=200, thorough=4000))[tier] if plan.get('model_ok', True) else 0
    n_total = vlib.count_lines(cases_path)
    n = vlib.execute(cases_path, trace_path, timeout_ms=tmo[tier] if isinstance(tmo, dict) else tmo,
                     steps_every=max(1, n_total // (2 * n_steps)) if n_steps else 0)
    log('[exec] %d cases executed (%.1fs)' % (n, time.time() - t0))
    judged, bad, tstates, twall = vlib.judge(trace_path, prop)
    log('[judge] %d judged, %d failing predicate (%.1fs TLC)' % (judged, len(bad), twall))
    if judged != n:
        raise vlib.ToolError('judged %d of %d cases' % (judged, n))

    # one pass over cases and records in step (the thorough tier has hundreds of thousands of records, gigabytes of
    # JSON: only what a later step needs is kept - failing, crashed and sample cases, and every id)
    bad_idx = {i: cls for i, cls in bad}
    nt = plan['nontrivial']
    dp = plan.get('drift_prop')
    keep = {}
    ids = []
    drift = []
    n_pred = 0
    crashes = []
    oversize = []
    keys = set()
    nontriv = set()
    dp_idx = []
    import itertools
    with open(cases_path) as fc, open(trace_path) as ft:
        for i, (lc, lt) in enumerate(itertools.zip_longest(fc, ft)):
            if lc is None or lt is None:
                raise vlib.ToolError('trace/cases misaligned at line %d' % (i + 1))
            c = json.loads(lc)
            r = json.loads(lt)
            ids.append(c.get('id'))
            meta = c.get('meta') or {}
            predh = meta.get('predh')
            pred = meta.get('pred')
            # model drift on MC behaviours (prediction recorded in meta.pred)
            if predh is not None and r.get('hist') is not None:
                n_pred += 1
                for pr, st in zip(predh, r['hist']):
                    if pr['k'] != st['res']['k'] or (pr['k'] == 'ok' and pr['lines'] != st['res']['lines']):
                        drift.append(c['id'])
                        break
            elif pred is not None and r.get('runs'):
                n_pred += 1
                for pr, rr in zip(pred, r['runs']):
                    obs = rr['res']
                    obs_lines = [[[x[0], x[1]] for x in ln if x[0] >= 0] for ln in obs['lines']] if obs['k'] == 'ok' else []
                    if pr['k'] != obs['k'] or (pr['k'] == 'ok' and pr['lines'] != obs_lines):
                        drift.append(c['id'])
                        break
            if dp and meta.get('src') == dp['src']:
                dp_idx.append(i)
            if r.get('oversize'):
                oversize.append(r.get('id'))
            k = case_key(c)
            keys.add(k)
            if not r.get('crash') and nt(r):
                nontriv.add(k)
            if r.get('crash'):
                crashes.append((i, r))
            if i in bad_idx or r.get('crash') or n_canon <= i < n_canon + 3:
                keep[i] = (c, r)
    if oversize:
        log('[exec] %d record(s) too large to be read back (lines dropped, judged by the totality predicate only): %s' % (len(oversize), oversize[:5]))
    # behaviours of a model whose prediction is an abstract sheet (meta.css): the observed colours against the
    # prediction, through the predicate of another property - as drift of that model, never as a verdict
    if dp:
        idx = dp_idx
        if idx:
            want = set(idx)
            sp = os.path.join(wd, 'driftprop.trace')
            with open(trace_path) as f, open(sp, 'w') as g:
                for i, l in enumerate(f):
                    if i in want:
                        g.write(l)
            dj, dbad, dstates, dwall = vlib.judge(sp, dp['prop'])
            tstates += dstates
            n_pred += len(idx)
            for i, _ in dbad:
                drift.append(ids[idx[i]])
            log('[model] %d behaviours of %s: observed colours against the predicted sheet (Props!P_%s), %d drift (%.1fs TLC)' % (len(idx), dp['src'], dp['prop'], len(dbad), dwall))
            os.remove(sp)
    # sampled replay of random cases through the full model (binding impl -> spec; drift, not verdict)
    n_model = plan.get('model_sample', dict(quick=150, thorough=3000))[tier]
    model_checked = 0
    model_idx = []
    if n_model and plan.get('model_ok', True):
        n_mc_cases = n_canon + mc_info['behaviours']
        sp = os.path.join(wd, 'model.trace')
        with open(trace_path) as f, open(sp, 'w') as g:
            for i, l in enumerate(f):
                # table-heavy / mutated giants are slow in the interpreter: only modest cases
                if i >= n_mc_cases and model_checked < n_model and len(l) < 20000 and '"nomodel"' not in l:
                    g.write(l)
                    model_idx.append(i)
                    model_checked += 1
        if model_checked:
            mj, mbad, mstates, mwall = vlib.judge(sp, prop, module='TraceModel', max_cases=20)
            tstates += mstates
            for i, _ in mbad:
                drift.append(ids[model_idx[i]])
            n_pred += model_checked
            log('[model] %d random cases replayed through the model, %d drift (%.1fs TLC)' % (model_checked, len(mbad), mwall))

    # step-level validation of the hook events (binding at the granularity of render nodes; drift, not verdict)
    step_info = dict(records=0, events=0, mismatches=[])
    if n_steps:
        sn, sev, sbad, sstates, swall = vlib.steps_validate(trace_path, wd, n_steps)
        tstates += sstates
        step_info = dict(records=sn, events=sev, mismatches=['%s: %s' % (i, w) for i, w in sbad[:20]], mismatch_count=len(sbad))
        log('[steps] %d runs / %d hook events validated against the step machine, %d mismatching (%.1fs TLC)' % (sn, sev, len(sbad), swall))

    # classification
    viol_dir = os.path.join(WORK, 'violations', prop)
    import shutil
    shutil.rmtree(viol_dir, ignore_errors=True)      # (replay files of earlier runs would be mistaken for current ones)
    os.makedirs(viol_dir, exist_ok=True)
    violations = []
    known_hits = {}
    for i, cls in sorted(bad_idx.items()):
        c, r = keep[i]
        cid = c.get('id', '')
        if cid.startswith('canon:'):
            fid = cid.split(':')[1]
            if any(f['id'] == fid for f in findings):
                known_hits.setdefault(fid, 0)
                known_hits[fid] += 1
                continue
        if r.get('crash') and prop in ('C01', 'C17'):
            fid = crash_known(findings, c, r)
            if fid:
                known_hits[fid] = known_hits.get(fid, 0) + 1
                continue
        if cls.startswith('generator-'):
            raise vlib.ToolError('case %s: %s (the harness-side construction disagrees with the reference semantics)' % (cid, cls))
        if cls and any(f.get('class') == cls for f in findings):
            fid = [f['id'] for f in findings if f.get('class') == cls][0]
            known_hits.setdefault(fid, 0)
            known_hits[fid] += 1
            continue
        violations.append((c, r))
    for i, r in crashes:
        # a crash / timeout is a violation only for the totality property; elsewhere it is a tool problem
        if prop in ('C01', 'C17'):
            if i not in bad_idx:
                fid = crash_known(findings, keep[i][0], r)
                if fid:
                    known_hits[fid] = known_hits.get(fid, 0) + 1
                    continue
                violations.append((keep[i][0], r))
        else:
            raise vlib.ToolError('case %s crashed the harness (%s); see C01' % (ids[i], r.get('crash')))

    for f in findings:
        if known_hits.get(f['id']):
            print('KNOWN-FINDING: property=%s %s (%d occurrence(s) this run)' % (prop, f['what'], known_hits[f['id']]))
        else:
            log('[known] finding %s did not reproduce in this run' % f['id'])
    seen = set()
    for c, r in violations:
        h = vlib.case_hash(c)
        if h in seen:
            continue
        seen.add(h)
        path = os.path.join(viol_dir, h + '.json')
        with open(path, 'w') as f:
            json.dump({'property': prop, 'case': c, 'observed': r}, f, ensure_ascii=False)
        print('VIOLATION property=%s replay=%s' % (prop, os.path.relpath(path, ROOT)))
        if len(seen) >= 25:
            log('[..] more violations suppressed (%d total)' % len(violations))
            break

    # evidence
    ok_samples = [sample_of(*keep[i]) for i in range(n_canon, n_canon + 3) if i in keep]
    coverage = {
        'states': max(1, mc_info['states'] + tstates),
        'transitions': max(1, mc_info['transitions'] + tstates),
        'traces_validated_against_impl': judged - len(bad_idx),
        'evaluations': judged,
        'distinct_nontrivial': len(nontriv),
        'distinct_cases': len(keys),
        'rule': plan['rule'],
        'samples': ok_samples,
        'exhaustive': False,
        'model_checking_runs': mc_info['runs'],
        'mc_behaviours_replayed': mc_info['behaviours'],
        'model_agreement': '%d/%d' % (n_pred - len(drift), n_pred),
        'drift_cases': drift[:20],
        'step_validation': step_info,
        'model_level_violations': mc_info['model_violations'],
        'predicate_failures': len(bad_idx),
        'known_findings_hit': known_hits,
        'oversize_records_not_judged': 0 if prop == 'C01' else len(oversize),
        'canonical_inputs_run': n_canon,
        'checker_cmd': 'bin/check %s --tier %s' % (prop, tier),
        'trace_validation_tlc_states': tstates,
    }
    # supplementary, never a verdict: the unbounded inductive invariant of the shrink loop (Apalache), thorough C01 only
    if prop == 'C01' and tier == 'thorough':
        import subprocess
        try:
            pr = subprocess.run([os.path.join(vlib.ROOT, 'bin', 'apalache_shrink')], stdout=subprocess.PIPE, stderr=subprocess.STDOUT, text=True, timeout=1500)
            coverage['apalache_shrink_loop'] = (pr.stdout.strip().split('\n') or [''])[-1]
        except Exception as e:
            coverage['apalache_shrink_loop'] = 'not run: %s' % e
        log('[apalache] %s' % coverage['apalache_shrink_loop'])
    vlib.write_evidence(prop, tier, seed, coverage, time.time() - t0, len(seen), plan['assumptions'])
    log('[done] %s tier=%s cases=%d nontrivial=%d violations=%d known=%s drift=%d wall=%.1fs' %
        (prop, tier, judged, len(nontriv), len(seen), known_hits, len(drift), time.time() - t0))
    return 1 if seen else 0


def replay(prop, path):
    d = json.load(open(path))
    c = d['case'] if 'case' in d else d
    wd = vlib.workdir(prop)
    cp = os.path.join(wd, 'replay.cases')
    tp = os.path.join(wd, 'replay.trace')
    with open(cp, 'w') as f:
        f.write(json.dumps(c) + '\n')
    vlib.execute(cp, tp)
    rec = vlib.read_ndjson(tp)[0]
    judged, bad, _, _ = vlib.judge(tp, prop)
    for k, run in enumerate(rec.get('runs', [])):
        print('run %d: w=%s cfg=%s route=%s -> %s %s' % (k + 1, run['w'], json.dumps(run['cfg'].get('ops')), run['route'], run['res']['k'], run['res'].get('msg', '')))
        for i, ln in enumerate(run['res']['lines'][:60]):
            print('  %3d|%s|' % (run['res']['sw'][i], vlib.cells_str(ln)))
    if rec.get('crash'):
        print('crash:', rec['crash'])
    if bad or rec.get('crash'):
        print('VIOLATION property=%s replay=%s' % (prop, path))
        return 1
    print('predicate holds on this case')
    return 0
