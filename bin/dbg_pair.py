#!/usr/bin/env python3
"""dbg_pair.py <trace> <cases> idx... : show first difference between runs 1 and 2 (debug aid)"""
import json,sys
recs=[json.loads(l) for l in open(sys.argv[1])]
cases=[json.loads(l) for l in open(sys.argv[2])]
def s(ln): return ''.join(chr(c[0]) for c in ln if c[0]>=0)
def html(run):
    if 'html' in run: return run['html']
    return bytes.fromhex(run['hx']).decode('utf-8','replace')
for i in map(int,sys.argv[3:]):
    r=recs[i-1]; c=cases[i-1]
    print('==',i,r['id'],r.get('meta'))
    for k,run in enumerate(r['runs']):
        print(' run',k+1,'w',run['w'],run['cfg']['deco'],run['cfg']['ops'],run.get('tag'),'->',run['res']['k'],run['res'].get('msg',''))
    hs=[html(x) for x in c['runs']]
    print(' A:',hs[0][:1500])
    if len(hs)>1 and hs[1]!=hs[0]: print(' B:',hs[1][:1500])
    a=r['runs'][-2] if len(r['runs'])>=2 else r['runs'][0]; b=r['runs'][-1]
    la=[s(x) for x in a['res']['lines']]; lb=[s(x) for x in b['res']['lines']]
    nd=0
    for k in range(max(len(la),len(lb))):
        x=la[k] if k<len(la) else '<none>'; y=lb[k] if k<len(lb) else '<none>'
        if x!=y:
            print('  diff line',k,repr(x),repr(y)); nd+=1
            if nd>=4: break
    if nd==0: print('  same text; lines equal:', a['res']['lines']==b['res']['lines'])
