#!/bin/bash
# try_mutant.sh <name> <worktree> <property...> : confirm a seeded change (tests still pass, demo fails with it and
# passes without it), then run the properties' quick checks on /repo with the change applied, and undo it.
set -u
name=$1; wt=$2; shift 2
out=/verif/seeded/$name; mkdir -p $out
cd $wt || exit 2
cp patch.diff $out/patch.diff
demo=$(ls tests/demo_*.rs 2>/dev/null | head -1)
[ -n "$demo" ] && cp $demo $out/
cp meta.json $out/agent_meta.json 2>/dev/null
dname=$(basename $demo .rs)
feat=""; grep -q "use_doc_css\|add_css\|add_agent_css" $demo && feat="--features css"
git checkout -q -- src
r_clean=$(cargo test --offline $feat --test $dname 2>&1 | grep "test result" | tail -1)
git apply patch.diff || { echo "patch does not apply in worktree"; exit 2; }
r_mut=$(cargo test --offline $feat --test $dname 2>&1 | grep "test result" | tail -1)
r_lib=$(cargo test --offline --lib 2>&1 | grep "test result" | tail -1)
r_css=$(cargo test --offline --features css --lib 2>&1 | grep "test result" | tail -1)
echo "demo clean : $r_clean"; echo "demo mutant: $r_mut"; echo "suite      : $r_lib"; echo "suite css  : $r_css"
cd /repo && git apply $out/patch.diff || { echo "patch does not apply to /repo"; exit 2; }
res=""
for p in "$@"; do
  (cd /verif && VERIF_EVIDENCE_DIR=/verif/work/evidence_selftest bin/check $p --tier quick > /tmp/mut_${name}_$p.log 2>&1); rc=$?
  nv=$(grep -c "^VIOLATION" /tmp/mut_${name}_$p.log)
  echo "check $p: exit $rc, $nv VIOLATION line(s)"; grep "TOOL ERROR" /tmp/mut_${name}_$p.log | head -2
  res="$res $p:rc=$rc:viol=$nv"
  mkdir -p $out/replays; for f in $(grep "^VIOLATION" /tmp/mut_${name}_$p.log | head -2 | sed 's/.*replay=//'); do cp /verif/$f $out/replays/ 2>/dev/null; done
done
cd /repo && git checkout -- . && git status --short | head -3
python3 - "$out" "$name" "$r_clean" "$r_mut" "$r_lib" "$r_css" "$res" <<'PY'
import json,sys,os
out,name,rc,rm,rl,rcss,res=sys.argv[1:8]
am={}
try: am=json.load(open(os.path.join(out,'agent_meta.json')))
except Exception: pass
meta={'id':name,'property':am.get('property'),'summary':am.get('summary'),'needs':am.get('needs'),
 'confirmed':{'demo_on_clean_tree':rc,'demo_with_change':rm,'suite_with_change':rl,'suite_css_with_change':rcss},
 'checks_run':res.split()}
json.dump(meta,open(os.path.join(out,'meta.json'),'w'),indent=1)
PY
