#!/usr/bin/env python3
"""Run one bounded model-checking configuration with TLC, collect statistics and the behaviours it
emits (`<<"BEH", json>>` lines), concretise them to HTML cases for replay on the real library."""
import json, os, re, subprocess, time
import vlib
from vlib import log, SPEC, H2TV

COV_RE = re.compile(r'<(\w+) line \d+, col \d+ to line \d+, col \d+ of module (\w+)>: (\d+):(\d+)')


def _cache_key(mc, tier, seed):
    """Model checking reads the specification and the concretiser only - never the library - so its result is a
    function of those files; several properties share configurations (MC_Table_thorough: 12 M states, 7 min)."""
    import hashlib, glob
    h = hashlib.sha256()
    files = sorted(glob.glob(os.path.join(SPEC, '**', '*.tla'), recursive=True) + glob.glob(os.path.join(SPEC, '**', '*.cfg'), recursive=True)
                   + glob.glob(os.path.join(vlib.ROOT, 'harness', 'src', '*.rs')) + [os.path.join(vlib.ROOT, 'bin', x) for x in ('mcrun.py', 'vlib.py')])
    for p in files:
        h.update(p.encode())
        with open(p, 'rb') as f:
            h.update(hashlib.sha256(f.read()).digest())
    h.update(json.dumps([mc, tier, seed if (mc.get('simulate') or {}).get(tier) else 0], sort_keys=True, default=str).encode())
    return h.hexdigest()[:32]


def run_mc(prop, mc, tier, wd, seed):
    import shutil
    cdir = os.path.join(vlib.WORK, 'mc_cache', _cache_key(mc, tier, seed))
    cfgname = mc['cfg'][tier]
    if os.path.exists(os.path.join(cdir, 'info.json')) and not os.environ.get('VERIF_NO_MC_CACHE'):
        info = json.load(open(os.path.join(cdir, 'info.json')))
        if info.get('cases'):
            dst = os.path.join(wd, '%s.cases' % cfgname)
            shutil.copyfile(os.path.join(cdir, 'cases'), dst)
            info['cases'] = dst
        info['summary']['reused'] = 'result of an earlier run with identical specification, configuration and concretiser (work/mc_cache)'
        log('[mc] %s %s: %d distinct states, %d behaviours (reused: specification and configuration unchanged since a run of %.1fs)' %
            (mc['module'], cfgname, info['distinct'], info['behaviours'], info['summary']['wall_s']))
        return info
    info = run_mc_fresh(prop, mc, tier, wd, seed)
    try:
        # entries of specifications that no longer exist: out after half a day
        base = os.path.dirname(cdir)
        if os.path.isdir(base):
            for d in os.listdir(base):
                p = os.path.join(base, d)
                if time.time() - os.path.getmtime(p) > 12 * 3600:
                    shutil.rmtree(p, ignore_errors=True)
        tmp = cdir + '.tmp%d' % os.getpid()
        os.makedirs(tmp, exist_ok=True)
        if info.get('cases'):
            shutil.copyfile(info['cases'], os.path.join(tmp, 'cases'))
        json.dump(info, open(os.path.join(tmp, 'info.json'), 'w'))
        if os.path.exists(cdir):
            shutil.rmtree(tmp)
        else:
            os.rename(tmp, cdir)
    except OSError:
        pass
    return info


def run_mc_fresh(prop, mc, tier, wd, seed):
    module = mc['module']
    cfg = mc['cfg'][tier]
    t0 = time.time()
    extra = list(mc.get('extra', []))
    simulate = (mc.get('simulate') or {}).get(tier)
    if simulate:
        extra += ['-seed', str(seed)]
    raw = os.path.join(wd, '%s.tlcout' % cfg)
    rc, _ = vlib.run_tlc(os.path.join(SPEC, 'mc'), module, cfg, workers=mc.get('workers', 8), heap=mc.get('heap', '6g' if tier == 'quick' else '12g'),
                         timeout=mc.get('timeout', 3600 if tier == 'quick' else 7200), simulate=simulate, depth=mc.get('depth'), extra=extra,
                         env=mc.get('env'), jit='c1' if tier == 'quick' else mc.get('jit', 'full'), out_path=raw)
    wall = time.time() - t0
    # behaviours are streamed to the .beh file; everything else (a few hundred lines) is kept for statistics / errors
    beh_path = os.path.join(wd, '%s.beh' % cfg)
    n = 0
    rest = []
    with open(raw, errors='replace') as fi, open(beh_path, 'w') as f:
        for l in fi:
            l = l.rstrip('\n')
            if l.startswith('<<"BEH", "') and l.endswith('">>'):
                body = l[len('<<"BEH", "'):-len('">>')]
                try:
                    j = json.loads(json.loads('"' + body + '"'))
                except Exception:
                    continue
                n += 1
                j['id'] = 'mc:%s:%d' % (cfg.replace('.cfg', ''), n)
                f.write(json.dumps(j) + '\n')
            elif len(rest) < 20000:
                rest.append(l)
    os.remove(raw)
    out = '\n'.join(rest)
    generated, distinct = vlib.parse_stats(out)
    ok = rc == 0 and ('No error has been found' in out or (simulate and 'states checked' in out and 'Error' not in out))
    if not ok:
        raise vlib.ToolError('model checking of %s/%s did not complete cleanly (specification-level invariant violated or TLC error):\n%s' % (module, cfg, out[-3000:]))
    cases = None
    if n:
        cases = os.path.join(wd, '%s.cases' % cfg)
        p = subprocess.run([H2TV, 'concretize', beh_path, cases], stdout=subprocess.PIPE, stderr=subprocess.STDOUT, text=True)
        if p.returncode != 0:
            raise vlib.ToolError('concretize failed: ' + p.stdout[-1000:])
    if simulate and generated == 0:
        m = re.search(r'(\d+) states checked', out)
        generated = distinct = int(m.group(1)) if m else 0
    summary = dict(module=module, cfg=cfg, states_generated=generated, distinct_states=distinct, behaviours_emitted=n,
                   wall_s=round(wall, 1), mode='simulate' if simulate else 'exhaustive', invariants=mc.get('invariants', ''))
    log('[mc] %s %s: %d distinct states, %d behaviours, %.1fs' % (module, cfg, distinct, n, wall))
    return dict(generated=generated, distinct=distinct, behaviours=n, cases=cases, summary=summary)
